#!/usr/bin/env python3
"""tools/addfixed.py <id> <property> <commit> <what> <line-text> : record a repaired defect in known_findings.json"""
import json, sys
fid, prop, commit, what, line = sys.argv[1:6]
fn = '/verif/known_findings.json'
k = json.load(open(fn))
assert not any(f['id'] == fid for f in k['findings'])
k['findings'].append({'id': fid, 'property': prop, 'status': 'fixed', 'commit': commit,
                      'line': 'fixed: property=%s %s %s' % (prop, commit, line), 'what': what})
json.dump(k, open(fn, 'w'), indent=1)
