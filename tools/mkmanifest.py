#!/usr/bin/env python
"""regenerate /verif/MANIFEST.json from the table below (kept valid against the schema)."""
import json
import os

VERIF = os.path.dirname(os.path.dirname(os.path.abspath(__file__)))
props = [json.loads(l) for l in open(os.path.join(VERIF, 'properties.jsonl'))]

TECH = 'bounded symbolic execution of the real pydl source (pathsym: per-path exploration, every assertion discharged by z3 as path-condition AND NOT property = unsat; counterexamples replayed on the uninstrumented code)'

# pid -> dict(text=..., note=..., design=...)
CLAIMED = {}
NA = {}


def claim(pid, text, note, design):
    CLAIMED[pid] = dict(text=text, note=note, design=design)


def na(pid, reason):
    NA[pid] = reason


exec(open(os.path.join(VERIF, 'tools', 'claims.py')).read())

checks = []
for p in props:
    pid = p['id']
    if pid in CLAIMED:
        c = CLAIMED[pid]
        checks.append({
            'property_id': pid,
            'quick_cmd': './check %s --tier quick' % pid,
            'thorough_cmd': './check %s --tier thorough' % pid,
            'evidence_file': '/verif/evidence/%s.json' % pid,
            'replay_cmd_template': './check %s --replay {path}' % pid,
            'engine': 'pathsym',
            'level_claimed': {'category': 'model_checking', 'text': c['text'], 'design_ref': c['design']},
            'level_note': c['note'],
            'technique': c.get('technique', TECH),
        })
m = {
    'version': 1,
    'setup_cmd': './setup.sh',
    'hooks': {'guard': 'PYDL_VERIF',
              'enable': 'no source hooks: the checks instrument pydl at import time inside the check process '
                        '(AST-rewriting loader + module-global rebinding); nothing under /repo is modified',
              'baseline_off_cmd': 'cd /repo && /venv/bin/python -m pytest -ra -q -p no:cacheprovider --timeout=900 --continue-on-collection-errors',
              'source_commits': [], 'add_only': True},
    'engines': [{'name': 'pathsym', 'path': '/verif/pathsym',
                 'serves_properties': sorted(CLAIMED),
                 'kind_free_text': 'per-path symbolic executor for the real pydl source: instrumenting import loader '
                                   '(AST rewrites, regenerated from /repo on every run), numpy facade with object arrays of '
                                   'exact reals / bit-vectors / symbolic strings, z3 5.1 as the deciding solver'}],
    'checks': checks,
    'not_applicable': [{'property_id': p['id'], 'reason': NA.get(p['id'], 'not built yet (DESIGN.md section 7: a property whose harness is not finished is not claimed)')}
                       for p in props if p['id'] not in CLAIMED],
    'notes': 'exit codes of ./check: 0 held within the bounds (KNOWN-FINDING lines possible), 1 reproduced violation, '
             '2 inconclusive (budget / solver unknown / unsupported operation), 3 harness error (e.g. a counterexample that '
             'does not reproduce on the real code).  Bounds and cuts per property: DESIGN.md section 4 and each evidence file.',
}
json.dump(m, open(os.path.join(VERIF, 'MANIFEST.json'), 'w'), indent=1)
try:
    import jsonschema
    jsonschema.validate(m, json.load(open('/root/.vp/MANIFEST.schema.json')))
    print('MANIFEST.json valid: %d claimed, %d not applicable' % (len(checks), len(m['not_applicable'])))
except ImportError:
    print('written (jsonschema not available)')
