#!/bin/sh
# tools/seedcheck.sh <PID> <seed-name> <worktree> [tier]
#   1. confirm in the worktree: suite passes with the change, demo fails with it and passes without it
#   2. apply the patch to /repo, run the check, undo
#   3. store patch / demo / meta under /verif/seeded/<seed-name>/
PID=$1; NAME=$2; WT=$3; TIER=${4:-quick}
S=$WT/_seed
[ -f $S/patch.diff ] || { echo "no patch in $S"; exit 9; }
cd $WT || exit 9
# the worktree must contain exactly the delivered patch (git stash is shared between worktrees: never use it here)
git checkout -q -- pydl
git apply $S/patch.diff || { echo "delivered patch does not apply"; exit 9; }
git diff -- pydl > /tmp/seed_current_$NAME.diff
T=$(/venv/bin/python -m pytest -q -p no:cacheprovider 2>&1 | tail -1 | sed 's/\x1b\[[0-9;]*m//g')
/venv/bin/python _seed/demo.py > /tmp/seed_demo_with_$NAME.txt 2>&1; RW=$?
git apply -R $S/patch.diff
/venv/bin/python _seed/demo.py > /tmp/seed_demo_without_$NAME.txt 2>&1; RWO=$?
git apply $S/patch.diff
echo "suite with change: $T"
echo "demo with change rc=$RW ; without change rc=$RWO"
if [ -n "$CONFIRM_ONLY" ]; then rm -f /tmp/seed_current_$NAME.diff /tmp/seed_demo_with_$NAME.txt /tmp/seed_demo_without_$NAME.txt; exit 0; fi
if [ -n "$(git -C /repo status --porcelain)" ]; then echo "/repo dirty"; exit 9; fi
git -C /repo apply /tmp/seed_current_$NAME.diff || { echo "patch does not apply to /repo"; exit 9; }
cd /verif
OUT=$(./check $PID --tier $TIER 2>&1)
RC=$?
git -C /repo checkout -- .
echo "$OUT" | grep -E "^VIOLATION|^INCONCLUSIVE|^HARNESS-ERROR|exit=" | cut -c1-260 | head -6
echo "check rc=$RC"
mkdir -p /verif/seeded/$NAME
cp /tmp/seed_current_$NAME.diff /verif/seeded/$NAME/patch.diff
cp $S/demo.py /verif/seeded/$NAME/demo.py
[ -f $S/notes.md ] && cp $S/notes.md /verif/seeded/$NAME/notes.md
FIRST=$(echo "$OUT" | grep -E "^VIOLATION" | head -1 | cut -c1-300 | sed 's/"/\\"/g')
cat > /verif/seeded/$NAME/meta.json <<EOM
{
 "property": "$PID",
 "suite_with_change": "$T",
 "demo_rc_with_change": $RW,
 "demo_rc_without_change": $RWO,
 "check_cmd": "./check $PID --tier $TIER",
 "check_rc": $RC,
 "first_violation_line": "$FIRST"
}
EOM
rm -f /tmp/seed_current_$NAME.diff /tmp/seed_demo_with_$NAME.txt /tmp/seed_demo_without_$NAME.txt
