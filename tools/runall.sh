#!/bin/sh
# tools/runall.sh [tier] : run every registered check, print one line each
cd /verif
T=${1:-quick}
for p in ${PIDS:-C01 C02 C03 C04 C05 C06 C07 C08 C09 C10 C11 C12 C13 C14 C15 C16 C17 C19 C20}; do
  s=$(date +%s)
  out=$(./check $p --tier $T 2>&1)
  rc=$?
  e=$(date +%s)
  echo "$p rc=$rc $((e-s))s $(echo "$out" | grep -c '^KNOWN-FINDING') known | $(echo "$out" | tail -1 | cut -c1-150)"
  echo "$out" | grep -E "^VIOLATION|^INCONCLUSIVE|^HARNESS-ERROR" | cut -c1-200 | head -3
done
