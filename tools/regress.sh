#!/bin/sh
# tools/regress.sh [seed-name ...] : run the quick check of each stored seeded change (applied to /repo, undone afterwards);
# one line per seed: name, exit code, first VIOLATION line.  Without arguments: every directory under seeded/.
cd /verif
[ $# -gt 0 ] || set -- $(ls seeded)
for s in "$@"; do
  t0=$(date +%s)
  out=$(timeout 1500 tools/seedrun.sh $s quick 2>&1)
  rc=$(echo "$out" | sed -n 's/^check rc=//p')
  git -C /repo checkout -- . 2>/dev/null
  echo "$s rc=$rc $(( $(date +%s) - t0 ))s | $(echo "$out" | grep -m1 '^VIOLATION' | cut -c1-220)"
done
