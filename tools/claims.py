# executed by mkmanifest.py:  claim(pid, text, note, design) / na(pid, reason)
claim('C14',
      'For every array shape / width / factor combination inside the bounds, smooth, median, uniq and rebin are executed '
      'symbolically on arrays whose CONTENTS are solver variables (exact reals, unbounded ints for the integer rebin branch) and each '
      'output element is proved equal to the IDL rule of the statement for all contents at once; a bounded-exhaustive proof over '
      'contents is the right level because the rules are piecewise-linear index arithmetic whose corner cases (edges, even widths, '
      'ties, all-equal arrays) are exactly what sampling misses.',
      'Bounds: smooth n<=6 (9 thorough) all widths<=n both edge modes; median n<=5 (7), widths odd<=n, 2-D 3x3 (3x4,4x3); uniq n<=5 (7) '
      'real and int64, all index permutations n<=3 (4); rebin 1-D n<=4 all integer factors<=3, 2-D and 3-D factor combinations, float and int. '
      'Floats are exact reals (no rounding/NaN/inf); scipy medfilt/medfilt2d and numpy.median are contract stubs (order-statistic relation); '
      'non-dyadic interpolation weights get a 1e-12 relative tolerance; integer expansion between sample points only bracketed; '
      'output dtype identity not covered. Fourth round: the median without a width on 2-D and 3-D shapes.', 'DESIGN.md 4/C14')
na('C18', 'every clause is about values of sin/cos/arcsin/arctan2 or their IEEE rounding: no SMT theory decides them and astropy frame machinery cannot carry symbolic values (DESIGN.md section 5)')
claim('C06',
      'sdss_objid / sdss_specobjid / unwrap_objid / unwrap_specobjid are executed symbolically with every numeric field a 64-bit '
      'bit-vector (array calls, n<=2 quick / 3 thorough) or an int64-bounded Python int (scalar calls): the solver proves, for ALL field '
      'tuples at once, that in-range fields give exactly the documented shift-or layout, that unwrap(pack) returns the fields and '
      'pack(unwrap(id)) the id for every 64-bit id, that scalar and array calls agree, and that ValueError is raised exactly when a field is '
      'out of range (and nothing else is raised). run2d as vN_M_P (symbolic digits, 1-2 per component) and as an integer string, and IDs '
      'given as decimal strings (19-20 symbolic digits) go through the same obligations via the symbolic string layer. Per-field sweeps '
      'cannot cover 2^64 tuples; bit-vector reasoning does.',
      'numpy int64/uint64 = two\'s-complement bit-vectors with numpy.result_type promotion; numpy.recarray replaced by a record stand-in '
      'with numpy\'s casting-on-assignment rule; arrays longer than 3 and Python ints beyond 64 bits are outside the claim. Fourth round: float() of an all-digit symbolic string is the correctly rounded binary64 of the integer it spells, so conversions of decimal-string IDs through float64 are decided.',
      'DESIGN.md 4/C06')
claim('C20',
      'window_score and template_input (with template_metadata inside it) run on stubbed collaborators that share one call counter; the '
      'index of the failing call, the initial presence of PHOTO_CALIB / PHOTO_RESOLVE / RUN2D / RUN1D and the branch-selecting file '
      'contents (object type, method, missing or malformed keywords, dump file present, rescore, flux) are symbolic, so the explorer '
      'enumerates every crash point on every control-flow variant (about 6 400 feasible paths quick, 12 700 thorough) and asserts at '
      'every exit that the environment stub equals its entry snapshot and no other variable was touched. Injecting a fault at one '
      'hand-picked call is what a unit test does; all k on all variants needs enumeration.',
      'The solver decides path feasibility (fault index, presence bits, content selectors are solver variables); collaborators are '
      'stubs returning a benign absorbing value or raising one of 2 (quick) / 4 (thorough) exception kinds; os.environ is a mapping stub '
      '(counterexamples are replayed against the real os.environ of a fresh process); collaborators are assumed not to modify the '
      'environment themselves. Fourth round: the parameter-file stub is a mapping with pairs() and tables() and may carry an unknown extra keyword (none / rundate / home, chosen by the solver).', 'DESIGN.md 4/C20')
claim('C04',
      'PARTIAL. spherematch is executed symbolically from the candidate loop onwards with the separation of every pair a solver '
      'variable (arbitrary non-negative real matrix D, arbitrary match length L > 0): for every D and L within the size bound the '
      'returned list contains each pair with D < L exactly once and none with D >= L, reports D as the distance, is sorted, and for '
      'maxmatch = 1, 2 satisfies the greedy characterisation of the statement. (2) The real spatial hash (chunks.__init__, rarange, '
      'assign, getbounds, get) is executed on symbolic right ascensions: a second-list point within the match length of a first-list '
      'point in Dec and in RA cos Dec - across the 0/360 seam too - is listed in the cell that point is looked up in. The step from '
      '"great-circle separation < L" to that box is a trigonometric lemma no SMT theory decides and is NOT claimed.',
      'Match loop: class chunks is replaced by a trivially complete hash and gcirc by 3600*D[i][k]; 2x1, 2x2, 3x1, 2x3 (+3x2 for maxmatch=1) '
      'quick; up to 3x2 and 2x3 thorough; maxmatch 0..2; ties in argsort in stable order. Hash: first-list declinations concrete (quick: 2 '
      'points on the equator within 10 deg of the seam, chunk size 120; thorough: 5 configurations incl. a polar one, chunk sizes 30-120), '
      'one second-list point anywhere, cos of the concrete declination bounds evaluated in IEEE double. Fourth round: a polar hash configuration whose declination slices are narrower than the match length (RA windows 99-101 / 98-102 deg).', 'DESIGN.md 4/C04 and 9.4')
claim('C05',
      'PARTIAL. (1) The per-chunk friends-of-friends class `groups` is executed on a symbolic symmetric distance matrix (n <= 5 quick, '
      '6 thorough): for every matrix and linking length the resulting partition equals the connected components of the link graph, '
      'numbered by first member, with consistent multiplicity / first / next lists. (2) spheregroup as a whole (cross-chunk merge with '
      'path compression, renumbering, list rebuild) is executed with the chunk assignment replaced by an ARBITRARY symbolic '
      'point-in-chunk relation subject to the margin invariant (every point in some chunk, every linked pair shares a chunk), so all '
      'multi-chunk overlap patterns of <= 3 (4) points in <= 2 (3) chunks are covered, plus chains over 5-7 chunks with a symbolic chunk '
      'visiting order. (3) The margin invariant itself is shown on the real chunks class (__init__, rarange, assign, getbounds) for 3 '
      'points with symbolic right ascensions near the RA seam, in the box metric (Dec and RA cos Dec within the linking length); the '
      'trigonometric step from separation to that box is not claimed.',
      'gcirc -> symbolic distance matrix; in (2) chunks.__init__/assign -> symbolic membership under the stated invariant; '
      'numpy.deg2rad -> identity; in (3) declinations are concrete (1 configuration quick, 3 thorough) and cos of the declination bounds is '
      'evaluated in IEEE double.', 'DESIGN.md 4/C05 and 9.4')
claim('C08',
      'bspline.__init__, intrv, bsplvn, action and value are executed symbolically: the abscissa, the coefficient vector and (orders <= 4) '
      'the breakpoints themselves are solver variables. Within the bounds the solver shows for EVERY abscissa / knot vector / coefficient '
      'vector: basis functions >= 0 and summing to 1 on the breakpoint range, value() equal to an independently written de Boor '
      'evaluation in the caller\'s order for 1-3 evaluation points given in any order, mask False exactly outside the range, and for each '
      'of the five breakpoint options a non-decreasing knot vector that covers the data with order-1 extra knots per side.',
      'Floats are exact reals (no rounding; float32 breakpoint storage exact). Symbolic knots: orders 1-3 (order 4 for identities only: '
      'the sign condition at order 4 with symbolic knots is unknown to z3 after 240 s); orders 4-6 otherwise on three concrete knot families. '
      'Polynomial / rational-function identities are normalised to canonical form before they are handed to z3 (pathsym/polynorm.py). '
      'Explicit/placed breakpoints and everyn data are assumed increasing. npoly > 1 not covered.', 'DESIGN.md 4/C08')
claim('C09',
      'PARTIAL. bspline.fit/action/value/maskpoints and cholesky_band/cholesky_solve are executed with the data vector y in R^n '
      'symbolic (n <= 10) on concrete exact-rational abscissa/knot/weight layouts (incl. zero weights): status 0, the coefficients '
      'satisfy the full weighted normal equations assembled independently by the harness (with a positive-definite normal matrix: the '
      'unique minimiser), equal an independent dense exact solve, reproduce every polynomial of degree < order (symbolic polynomial '
      'coefficients), do not depend on y at zero-weight points and are linear in y. cholesky_band\'s own logic (diagonal screening against '
      'mininf, padding, error localisation, solve) is executed on a fully symbolic banded matrix (n <= 3 quick / 4 thorough, bandwidth <= 3). '
      'Ill-posed problems (gap, zero-weight block, all-zero weights, too few breakpoints, negative weights) must return a documented status.',
      'scipy cholesky_banded / cho_solve_banded are contract stubs (LinAlgError iff a leading minor <= 0; exact solution of A x = b): the '
      'numerical factorisation L L^T = A is LAPACK behind FFI and is assumed, not checked. Floats are exact reals; non-finite input is '
      'outside the claim (isfinite is constantly true). Order 1 only where no datum sits on an interior breakpoint. Fourth round: ill-posed cases with the unsupported stretch at either end of the knot vector (orders 3, 4) and breakpoints beyond the data.', 'DESIGN.md 4/C09')
claim('C10',
      'iterfit (with the real bspline class and djs_reject underneath) is executed with the data vector y symbolic (n <= 5 quick, 6 thorough) '
      'on exact-rational abscissae and inverse-variance patterns (ones, mixed squares, zeros, negatives), orders 1-4, limits from {1,2,5}, '
      'maxiter 0-2. On every feasible rejection pattern the solver shows: curve and mask equal those of the documented fit-reject-refit '
      'loop written independently in the harness with an exact dense solve; points with non-positive inverse variance are flagged False '
      'and absent from the coefficient expressions; and re-running on the input permuted by each generator of the permutation group '
      '(all 24 permutations for n=4) gives identical coefficient expressions and the identically permuted mask.',
      'Order independence is shown for a transposition and a rotation on every dataset, which generates all permutations by '
      'composition. Inverse variances are exact squares so that sqrt stays rational; scipy banded Cholesky pair is a contract stub '
      '(see C09); floats are exact reals; sqrt(negative) is NaN comparing False as in numpy. n > 6, x2 fits, groupbadpix/maxrej/grow not covered.',
      'DESIGN.md 4/C10')
claim('C17',
      'djs_reject, djs_maskinterp(1), aesthetics, djs_median(boundary=reflect) and skymask are executed with their array CONTENTS symbolic: '
      'data / model / sigma (or invvar = s^2) / limits / masks for djs_reject; samples, masks and x positions for the interpolation; '
      'flux and the zero pattern of the inverse variance for aesthetics; the or-mask as int16/int32/int64/uint64 bit-vectors for skymask '
      '(numpy promotion rules reproduced). Every output element is proved equal to the rule of the statement (rejected exactly = masked out '
      'or beyond a limit or within `grow` of such a point; completion flag <=> mask unchanged; only masked samples change and become the '
      'linear interpolation between nearest good neighbours; flux changes only where ivar is zero; reflecting median = symmetric reflection; '
      'ivar zeroed exactly within ngrow pixels of a BADSKYCHI/REDMONSTER bit) for all contents at once.',
      'Sizes: djs_reject n<=4 (6 thorough) with all mask combinations only for n=2 (3 thorough); maskinterp 1-D n<=4 (6), with x n<=3 (4), '
      '2-D up to 3x3, 3-D 2x2x2(3); aesthetics n<=3 (5), 4 methods (not damp); skymask up to 2x3 (2x4, 1x5). Floats exact reals; sigma, limits >= 0; '
      'numpy.interp and scipy medfilt by their definitions; axis of djs_maskinterp counted IDL-style as the code does; djs_reject without '
      'sigma/invvar and its maxrej/group options not covered.', 'DESIGN.md 4/C17')
claim('C13',
      'flegendre / fchebyshev / fpoly / fchebyshev_split are executed with a symbolic abscissa x in [-1,1] (scalar and array call forms) and '
      'each of the first 8 (12 thorough) functions is shown to lie within 1e-9 of the textbook polynomial for EVERY x (univariate polynomial '
      'inequalities decided by z3). func_fit runs with a symbolic data vector y (and symbolic fixed-parameter values) on exact abscissa / '
      'weight / fixed-parameter / inputfunc families: free coefficients satisfy the weighted normal equations built from the harness\'s own '
      'textbook basis, fixed ones keep their values, zero-weight y_i do not occur in the result, exact basis combinations are recovered. '
      'TraceSet: fit then xy() at the same positions returns yfit for every y, with and without the BOSS x-jump; the default grid runs '
      'from xmin to xmax in unit steps.',
      'numpy.linalg.solve is an exact-rational contract stub; scipy\'s stored polynomial coefficients are floats, hence 1e-9 (relative to '
      'sum |y|) tolerances for Legendre/Chebyshev beyond order 2, exact equality for the monomial basis; abscissae inside the solve are '
      'concrete; FITS-record constructor of TraceSet not covered.', 'DESIGN.md 4/C13')
claim('C19',
      'PARTIAL. airtovac / vactoair are executed with a symbolic real wavelength: unchanged below 2000 A, vacuum > air above, and the two '
      'round trips stay within 1e-6 A for EVERY wavelength in [2000 A, 30 micron] (a nonlinear real query decided by z3/nlsat; dropping '
      'one fixed-point iteration is refuted with a concrete wavelength); array calls with any mixture of elements below/above 2000 A agree '
      'with the scalar form and leave the input unchanged. sdssflux2ab: flux, inverse-variance and magnitude forms use one constant per band '
      'consistently for every 5-band value. filter_thru on concrete wavelength solutions with a symbolic flux image: every output is shown '
      'linear in the flux, equal to c for a constant spectrum (0 for a band without overlap), inside [min, max] of the unmasked flux, '
      'independent of masked pixels and of other traces.',
      'Wavelengths are exact reals and non-binary float literals denote their decimal value (1e-6 A leaves five orders of magnitude for '
      'rounding - an argument, not a solver result); array elements restricted to >= 1400 A (below that numpy evaluates and discards an '
      'inf at the poles of the Ciddor factor); filter_thru/sdssflux2ab run in mixed mode (concrete sub-computations in IEEE double, 1e-9 / '
      '1e-12 tolerances). astropy Quantity input is NOT covered (units machinery cannot carry symbolic values). Fourth round: a wavelength image decreasing with pixel index in filter_thru; wavelengths held in 0-d arrays / NumPy scalars for airtovac and vactoair. Integer-typed flux images in filter_thru are NOT covered (inconclusive in the engine).', 'DESIGN.md 4/C19')
claim('C12',
      'PARTIAL. cap_distance / is_in_cap / is_cap_used / is_in_polygon / is_in_window / set_use_caps and the keyword and copy constructors of '
      'ManglePolygon are executed with cap centres, cap sizes cm in (-2,2), points (Cartesian unit vectors, or RA/Dec through angles_to_x) '
      'and the use-mask all symbolic: for every such configuration within the bounds a point is reported inside a polygon exactly when it '
      'is inside every cap selected by the use-mask (first n caps when ncaps is given; a polygon without caps contains everything), the '
      'window lookup returns the first containing polygon in list order (-1/False if none), and set_use_caps selects exactly the listed '
      'caps minus later (near-)duplicates.',
      'arccos is a strictly decreasing function symbol (value per application + pairwise monotonicity instances), degrees/radians positive '
      'scalings, sin/cos opaque values with s^2+c^2=1 (reference uses the same conversion); |x.p| <= 1 supplied as a lemma. NOT covered: the '
      'three storage formats (Mangle text / FITS table / window_read assembly: astropy I/O). IEEE rounding of the dot product fed to arccos '
      '(a cap\'s own centre; NaN) is covered by two binary64 (QF_FP) obligations in which numpy.dot returns an arbitrary double within 2^-50 '
      'of [-1, 1] and arccos is a function symbol with stated libm facts (validated against this machine\'s numpy on every run). Bounds: <= 2 caps x 1-2 points, <= 3 polygons, index lists over 3 caps up to '
      'length 2 (3 thorough). Fourth round: caps with cm = 0 belong to the domain (assumption cm != 0 removed).', 'DESIGN.md 4/C12')
claim('C16',
      'readspec (with spec_append, latest_mjd, number_of_fibers, spec_path) runs against a synthetic survey in which every pixel of every HDU '
      'of every plate-MJD file is a distinct symbol D(plate, mjd, hdu, row, pixel); the request vector (plate, MJD, fibre per entry, 1-2 '
      'entries quick / 3 thorough, with repetition and mixture) and the presence of photoPlate / spZbest files are solver-chosen selectors. '
      'For every feasible request the provenance terms show: row i of flux, invvar, and/or masks, dispersion, sky, plug-map, redshift '
      'and photometry columns is row fibre-1 of request i\'s plate-MJD files, shorter spectra are zero-padded on the right and nothing is '
      'shifted, loglam = COEFF0 + COEFF1*pixel; vector, scalar-plate, MJD-omitted and all-fibres calling conventions. spec_append with '
      'symbolic contents and a symbolic pixel shift in -2..2: no overlap, loss or move other than the shift, zero padding.',
      'FITS I/O, glob and os.path.exists are stubs; the survey is 2 plates x 2 MJDs x 3 fibres with 4 and 6 pixels; the solver enumerates '
      'request selectors (path feasibility) and decides equality of provenance terms; align=True and znum are not covered.', 'DESIGN.md 4/C16')
claim('C15',
      'PART. computechi2 for every full-rank 2-parameter system (normal equations, fitted values, chi-square, degrees of freedom, '
      'covariance = inverse of A^T W A, variances = its diagonal) and the HMF update steps: HMF.astep and HMF.gstep are executed with the spectra matrix symbolic (N<=3, M<=4, '
      'K<=2 quick; up to 4x6, K=3 thorough) on concrete exact-rational other factor and inverse variances (with zero weights), epsilon in '
      '{None, 0, 1/2}: for EVERY spectra matrix the gradient of chi-square (plus the smoothness penalty with neighbouring columns held) '
      'with respect to the updated factor vanishes, i.e. each update is the exact weighted least-squares optimum given the other factor; '
      'astepnn/gstepnn keep both factors >= 0 for every non-negative spectra matrix; normbase returns r with r^2 = mean(g^2) (unit rms).',
      'NOT claimed (deciding computation is LAPACK/C behind FFI, no encoding within reach; with concrete matrices the claim would degenerate '
      'to a unit test): computechi2 beyond 2 parameters or rank-deficient, pcomp and HMF.reorder (eigh), pca_solve, k-means seeding / seed determinism, '
      '"caller\'s arrays not modified". numpy.linalg.solve is an exact-rational contract stub; numpy.linalg.svd is a contract stub that '
      'hands out the decomposition named by the harness only after verifying U diag(w) Vh = input, orthonormality, sign and order. Fourth round: the lazy results of computechi2 are read in four different orders (one obligation each, together containing every ordered pair of attributes); each result is read twice.', 'DESIGN.md 4/C15 and 9.2')
claim('C11',
      'PARTIAL. combine1fiber (1-D, and stacks of two exposures with different coverage: zero pattern of the inverse variance), aesthetics, djs_maskinterp, smooth and the shift arithmetic of preprocess_spectra are executed with the '
      'spline fit replaced by an ARBITRARY fit outcome (fresh symbolic flux per evaluated pixel, symbolic evaluation mask, symbolic '
      'rejection mask), symbolic flux and symbolic non-negative inverse variance with a symbolic zero pattern, on concrete input/output grids '
      '(same, shifted, wider, narrower, coarser): for every such outcome the outputs have the grid\'s length, ivar >= 0, ivar == 0 for every '
      'output pixel that does not lie between two adjacent good (positively weighted, not rejected) input pixels, every non-zero ivar equals '
      'the linear interpolation of the input ivar and never exceeds its local maximum, aesthetics changes flux only where ivar is 0, the '
      'no-good-pixel case returns zeros, scaling the input ivar scales the output ivar, and preprocess_spectra hands each object\'s own row '
      'to the resampler on the grid L - log10(1+z).',
      'The spline fit itself is not part of this check (covered by C08-C10); "finite" cannot be expressed in exact reals; identity/constant-'
      'spectrum accuracy is a statement about the fit; for stacks the variance smoothing (running median over 101 pixels) is an arbitrary '
      'positive value per pixel and the fit accepts everything. An output pixel that coincides with a good input pixel counts as lying between (same-grid resampling is the identity). The '
      'scaling law is shown for weights >= 1 and factors >= 1e-3 (the code treats |ivar| < float32 eps as no weight). Fourth round: the scaling law with flux scaled by c and inverse variance by 1/c^2 together (c a solver choice from 1/1000, 30) under a fit stub whose curve and coefficients scale with the data; stub coefficients symbolic and non-zero; scaled inverse variances stay >= 1e-3 (the code\'s absolute float32-eps threshold for \'no weight\' is outside the claim).', 'DESIGN.md 4/C11')
claim('C02',
      'The real yanny parser (__init__, _parse, get_token, trailing_comment, type/isarray/isenum/array_length/char_length/dtype/convert) is '
      'executed on a rendered logical document (2 pairs, 1 enum, 2 structs with int / char[n] / char[] / enum / string-array / float-array '
      'columns, rows of both tables) in which the CONTENTS of a string cell, of a header value and of a trailing comment are symbolic '
      'characters (2 per document quick, 3-4 thorough) and the layout choices are symbolic or enumerated per family: bare / quoted / '
      'braced strings, comment lines and trailing comments, blank lines and blank/tab runs, CRLF, backslash continuation with symbolic '
      'trailing blanks, [n] vs <n>, per-letter case of the structure name on data rows, row interleavings, text vs binary file object, '
      'char[] sizing, structure names that are substrings of each other. For every character choice the parse (raw lists and record '
      'arrays) equals the document: tables, column order and types, row order, every cell, pairs.',
      're is replaced by an interpreter of the same pattern strings over symbolic strings (pathsym.symre, validated against re on ~15 000 '
      'cases per run); numpy structured arrays by a record stand-in with numpy\'s S<n> truncation rule. Admissible contents per rendering '
      'are stated in the evidence (e.g. bare strings contain no blank, #, quote or brace; trailing comments no quote, second # or '
      'backslash - documented limits of trailing_comment). Float tokens are concrete. Longer contents and products of several non-default '
      'layout choices are outside the bound. Fourth round: padding inside the braces of array cells and a declared table without rows are layouts too.', 'DESIGN.md 4/C02')
claim('C01',
      'PARTIAL. write_ndarray_to_yanny / write_table_yanny -> file -> yanny() / read_table_yanny are executed end to end over an in-memory '
      'file system with the CONTENTS of string cells, string-array elements and header values symbolic characters (up to 2-3 per document '
      'quick, 4 thorough, TAB + printable ASCII minus exactly the texts the statement excludes) and integer cells given by symbolic decimal '
      'digits for every digit count and sign of int16 / int32 (int64 thorough): for every such content the writer object and a fresh read '
      'both return the same table names (upper-cased), column order, column types, row count, every string and integer cell and header '
      'values equal to the text form supplied; several tables per file, zero-row tables, enum columns, the Table entry points, refusal of '
      'an existing file and of the unsupported scalar dtypes (u1,u2,u4,u8,i1,b1,f2,c8,c16 - a finite enumeration) are covered.',
      'NOT claimed: float cells (bit-identical text round trip incl. NaN / inf / denormals: numpy repr and CPython float() are C code - floats '
      'appear only as concrete values). re -> pathsym.symre; record arrays / Table -> record stand-in with a real numpy dtype; the decimal '
      'rendering and parsing of integers is the engine\'s (digits symbolic), the tokeniser in between is pydl\'s; in-memory file system. Fourth round: the header keyword is a name chosen by the solver (among them struct, enum, typedef, symbols - the parser\'s own bookkeeping words) through the record-array and the Table entry points; zero-row tables with array columns.',
      'DESIGN.md 4/C01')
claim('C03',
      'The yanny object methods (__init__, write, append, _parse, protect and the accessors) are executed over an in-memory file system for '
      'EVERY history of 1-2 operations (3 in the thorough tier) drawn by a symbolic selector from {write-new, append rows as lists under the '
      'upper-case name, append a record array under the lower-case name, append rows of the second table, append pairs, append nothing, write '
      'over an existing file, append to a missing file, re-read}, with symbolic characters in the appended strings and pair values, in raw and '
      'record-array mode. After every step the object, a fresh read of its file and the model (original content followed by all appended rows '
      'and pairs in order) agree cell by cell, earlier file content is a byte-for-byte prefix of the new one, refused operations raise the '
      'documented exception and leave files and object unchanged, and an empty append only warns.',
      'The file system is a stub with create / append / exists semantics (real OS permissions and concurrent writers are outside); re -> '
      'pathsym.symre; record arrays -> stand-in; the solver enumerates operation selectors (path feasibility) and decides the cell '
      'equalities over the symbolic characters. Histories longer than 3 steps are outside the bound. Fourth round: \'appending nothing\' is tried in five spellings chosen by the solver (no key, empty lists, zero-length record arrays, either letter case).', 'DESIGN.md 4/C03')
claim('C07',
      'set_maskbits (raw yanny read of a definition file from the in-memory file system), sdss_flagval, sdss_flagname and sdss_flagexist are '
      'executed with the bit numbers in the file symbolic decimal digits (one or two digits, distinct, 0..63, one label pinned to bit 63), '
      'the letter case of queried group and label names symbolic per letter, and queried values with up to 1 (2 thorough) set bits at '
      'solver-chosen positions: names -> value is exactly the OR of 2^bit; value -> names lists exactly the labels of the defined set bits '
      'in ascending bit order; both round trips are identities on defined bits including bit 63; an alias behaves as its group; unknown '
      'groups / labels raise KeyError exactly when a conversion needs them, a zero value names nothing in any group, and sdss_flagexist '
      'reports without raising (per label when asked).',
      'Label and group names are concrete identifiers (2-4 labels); the bit numbers are symbolic; re -> pathsym.symre; in-memory file system. '
      'More than 4 labels per group and values with more than 2 arbitrary set bits are outside the bound.', 'DESIGN.md 4/C07')
