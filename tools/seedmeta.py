#!/usr/bin/env python3
"""tools/seedmeta.py: complete /verif/seeded/<id>/meta.json with what the change needs in order to
manifest, what was run, and whether the check had to be strengthened to see it.  The measured fields
(suite / demo / check results) are those written by tools/seedcheck.sh and are kept as they are."""
import json
import os
import sys

HERE = os.path.dirname(os.path.dirname(os.path.abspath(__file__)))

INFO = {
    'C01-array-len1': dict(
        change="yanny.dtype_to_struct: `if l > 0` -> `if l > 1` before the `[l]` suffix of a column declaration",
        needs="a table with an array column of length exactly 1 (scalars and arrays of length >= 2 are unaffected)",
        caught_by="strings [2] array / ints arrlen=1 obligations (array columns whose length is 1)",
        initially_missed=True,
        strengthening="array-column obligations only had lengths 2 and 3; added length-1 string and integer array columns"),
    'C02-crlf-continuation': dict(
        change="yanny._parse: continuation regex `\\\\\\s*\\n` -> `\\\\[ \\t]*\\n`",
        needs="CRLF line ends and a backslash continuation in text that reaches _parse with the CR intact (file-like object)",
        caught_by="layout 'continuation' with the line terminator a symbolic choice (LF / CRLF)",
        initially_missed=True,
        strengthening="line terminator, blank run and array spelling were fixed per layout; they are now symbolic choices inside the comment, continuation, row-case and char[] layouts"),
    'C03-refused-append-buffered': dict(
        change="yanny.append: `self._contents += contents` moved in front of the writability guard",
        needs="a refused (append-to-missing) non-empty append followed by a successful append on the same object",
        caught_by="history steps=2 first=append-to-missing",
        initially_missed=False),
    'C04-bool-counters': dict(
        change="spherematch: gotten1/gotten2 allocated as dtype 'b1' (bool) instead of 'i4'",
        needs="maxmatch >= 2 and a point with more than maxmatch partners inside matchlength",
        caught_by="spherematch 3x1 maxmatch=2 (and 2x3 maxmatch=2)",
        initially_missed=True,
        strengthening="maxmatch=2 was only explored with at most 2 partners per point; added 3x1 and 2x3 configurations"),
    'C05-single-hop-root': dict(
        change="chunks.friendsoffriends: root lookup loop replaced by a single hop through mapGroups",
        needs="one group spanning >= 5 chunk groups merged in an order that leaves a two-hop label chain",
        caught_by="spheregroup chain npts=6 with a symbolic chunk visiting order",
        initially_missed=True,
        strengthening="points were confined to at most 2x2 chunks; added the chain obligation over 6 chunks with every labelling order"),
    'C06-run2d-M-unwrap': dict(
        change="unwrap_specobjid: `(run2d % 10000) // 100` -> `(run2d // 100) % 10000`",
        needs="vN_M_P mode and run2d >= 10000 (N = 6)",
        caught_by="specobjid run2d=vN_M_P (digits symbolic), read-back assertion",
        initially_missed=False),
    'C07-flagname-file-order': dict(
        change="sdss_flagname: per-bit loop replaced by one comprehension over the group's dict order",
        needs="a maskbits group whose rows are not in ascending bit order and a value with >= 2 defined bits",
        caught_by="flagval/flagname labels=2 top='first' (file lists the higher bit first)",
        initially_missed=True,
        strengthening="generated maskbits files always listed bits ascending; added the obligation with the row order reversed"),
    'C08-value-double-sort': dict(
        change="bspline.value: `yy[xsort] = yfit` -> `yy = yfit[xsort]`",
        needs="evaluation points whose sorting permutation is not an involution (>= 3 points, e.g. a rotation)",
        caught_by="value nord=2 nbk=3 npts=3 (caller-order assertion)",
        initially_missed=True,
        strengthening="caller-order obligations had 2 points (every permutation of 2 is an involution); added 3-point obligations"),
    'C09-single-point-segment': dict(
        change="bspline.fit: `if ict > 0` -> `if ict > 1` in the normal-equation accumulation",
        needs="a breakpoint interval holding exactly one data point in a full-rank problem",
        caught_by="fit 'single8' layout (one point alone in its interval), normal-equation assertion",
        initially_missed=True,
        strengthening="fit layouts had >= 2 points per interval; added the layout with a single point in one interval"),
    'C10-maskwork-unsorted': dict(
        change="iterfit: `maskwork = (outmask & (invvar > 0))[xsort]` lost its `[xsort]`",
        needs="unsorted x and an invvar <= 0 whose caller position differs from its sorted position",
        caught_by="iterfit n=4 w=zero1 perms=2 (mask permutes with the input)",
        initially_missed=False),
    'C11-fullcombmask-ones': dict(
        change="combine1fiber: `fullcombmask = np.zeros(npix)` -> `np.ones(npix)`",
        needs="an isolated zero-weight interior pixel and an output grid off the input grid",
        caught_by="combine1fiber shift6 free=ivzero (inverse variance 0 next to a bad pixel)",
        initially_missed=False),
    'C12-usencaps-popcount': dict(
        change="is_in_polygon: loop bound min(usencaps, popcount(use_caps))",
        needs="a use_caps mask with a gap (an unused cap below a used one)",
        caught_by="is_in_polygon caps=2 (use_caps symbolic)",
        initially_missed=False),
    'C13-inputans-free-slots': dict(
        change="func_fit: `inputans * (1 - ia)` -> `inputans` when pre-subtracting the fixed part",
        needs="ia with a False entry and inputans non-zero at a free slot",
        caught_by="func_fit legendre n=6 nc=4 ia=(T,F,T,T) (normal equations for the free coefficients)",
        initially_missed=False),
    'C14-rebin-sliceobj1': dict(
        change="rebin: `sliceobj1` initialisation hoisted out of the per-axis loop",
        needs="ndim >= 2, sample=False, two axes both expanded",
        caught_by="rebin (2,2)->(4,4) sample=0",
        initially_missed=False),
    'C15-gstep-N-vs-M': dict(
        change="HMF.gstep: penalty diagonal edge test `l < M-1` -> `l < N-1`",
        needs="epsilon > 0 and N != M",
        caught_by="HMF.gstep N=2 M=3 K=1 eps=1/2 (gradient of chi-square + penalty vanishes)",
        initially_missed=False),
    'C16-double-argsort': dict(
        change="readspec: `j = allpmjdindex.argsort()` -> `.argsort().argsort()`",
        needs="a request whose grouping permutation is not an involution (>= 3 rows over >= 2 plate-MJD files, unsorted)",
        caught_by="readspec 3 requests, symbolic plate/mjd ('latest' variant included)",
        initially_missed=True,
        strengthening="readspec obligations had 2 requests (every permutation an involution); added 3-request obligations"),
    'C17-grow-last-sample': dict(
        change="djs_reject: out-of-range fallback of the upper grow neighbour `n-1` -> the point itself",
        needs="grow >= 1 and a rejected point within grow of the last sample",
        caught_by="djs_reject grow obligations (outmask == specification)",
        initially_missed=False),
    'C19-maskinterp-axis': dict(
        change="filter_thru: `djs_maskinterp(flux, mask, axis=0)` -> `axis=1`",
        needs="a non-zero mask passed to filter_thru",
        caught_by="filter_thru with mask (result independent of masked pixel values)",
        initially_missed=False),
    'C20-close-in-finally': dict(
        change="window_score: `flist.close()` moved into `finally` in front of the PHOTO_CALIB restore",
        needs="HDUList.close() raising",
        caught_by="window_score fault schedule (each external call may raise, close included)",
        initially_missed=False),
}

RAN = ["in the scratch worktree: /venv/bin/python -m pytest -q -p no:cacheprovider (with the change)",
       "in the scratch worktree: /venv/bin/python _seed/demo.py with the change and after `git apply -R _seed/patch.diff`",
       "git -C /repo apply patch.diff; cd /verif && ./check <PID> --tier quick; git -C /repo checkout -- .",
       "git -C /repo worktree remove --force <worktree>"]


def main():
    for name, info in sorted(INFO.items()):
        p = os.path.join(HERE, 'seeded', name, 'meta.json')
        if not os.path.exists(p):
            print('missing', p)
            continue
        m = json.load(open(p))
        m.update({'breaks_property': m.get('property'), 'change': info['change'], 'needs_to_manifest': info['needs'],
                  'origin': 'independent sub-agent given only the property text and a scratch worktree of /repo',
                  'ran': RAN, 'caught_by': info['caught_by'], 'initially_missed': info['initially_missed']})
        if info.get('strengthening'):
            m['strengthening'] = info['strengthening']
        json.dump(m, open(p, 'w'), indent=1)
        open(p, 'a').write('\n')
    return 0


if __name__ == '__main__':
    sys.exit(main())
