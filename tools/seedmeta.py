#!/usr/bin/env python3
"""tools/seedmeta.py: complete /verif/seeded/<id>/meta.json with what the change needs in order to
manifest, what was run, and whether the check had to be strengthened to see it.  The measured fields
(suite / demo / check results) are those written by tools/seedcheck.sh and are kept as they are."""
import json
import os
import sys

HERE = os.path.dirname(os.path.dirname(os.path.abspath(__file__)))

INFO = {
    'C01-array-len1': dict(
        change="yanny.dtype_to_struct: `if l > 0` -> `if l > 1` before the `[l]` suffix of a column declaration",
        needs="a table with an array column of length exactly 1 (scalars and arrays of length >= 2 are unaffected)",
        caught_by="strings [2] array / ints arrlen=1 obligations (array columns whose length is 1)",
        initially_missed=True,
        strengthening="array-column obligations only had lengths 2 and 3; added length-1 string and integer array columns"),
    'C02-crlf-continuation': dict(
        change="yanny._parse: continuation regex `\\\\\\s*\\n` -> `\\\\[ \\t]*\\n`",
        needs="CRLF line ends and a backslash continuation in text that reaches _parse with the CR intact (file-like object)",
        caught_by="layout 'continuation' with the line terminator a symbolic choice (LF / CRLF)",
        initially_missed=True,
        strengthening="line terminator, blank run and array spelling were fixed per layout; they are now symbolic choices inside the comment, continuation, row-case and char[] layouts"),
    'C03-refused-append-buffered': dict(
        change="yanny.append: `self._contents += contents` moved in front of the writability guard",
        needs="a refused (append-to-missing) non-empty append followed by a successful append on the same object",
        caught_by="history steps=2 first=append-to-missing",
        initially_missed=False),
    'C04-bool-counters': dict(
        change="spherematch: gotten1/gotten2 allocated as dtype 'b1' (bool) instead of 'i4'",
        needs="maxmatch >= 2 and a point with more than maxmatch partners inside matchlength",
        caught_by="spherematch 3x1 maxmatch=2 (and 2x3 maxmatch=2)",
        initially_missed=True,
        strengthening="maxmatch=2 was only explored with at most 2 partners per point; added 3x1 and 2x3 configurations"),
    'C05-single-hop-root': dict(
        change="chunks.friendsoffriends: root lookup loop replaced by a single hop through mapGroups",
        needs="one group spanning >= 5 chunk groups merged in an order that leaves a two-hop label chain",
        caught_by="spheregroup chain npts=6 with a symbolic chunk visiting order",
        initially_missed=True,
        strengthening="points were confined to at most 2x2 chunks; added the chain obligation over 6 chunks with every labelling order"),
    'C06-run2d-M-unwrap': dict(
        change="unwrap_specobjid: `(run2d % 10000) // 100` -> `(run2d // 100) % 10000`",
        needs="vN_M_P mode and run2d >= 10000 (N = 6)",
        caught_by="specobjid run2d=vN_M_P (digits symbolic), read-back assertion",
        initially_missed=False),
    'C07-flagname-file-order': dict(
        change="sdss_flagname: per-bit loop replaced by one comprehension over the group's dict order",
        needs="a maskbits group whose rows are not in ascending bit order and a value with >= 2 defined bits",
        caught_by="flagval/flagname labels=2 top='first' (file lists the higher bit first)",
        initially_missed=True,
        strengthening="generated maskbits files always listed bits ascending; added the obligation with the row order reversed"),
    'C08-value-double-sort': dict(
        change="bspline.value: `yy[xsort] = yfit` -> `yy = yfit[xsort]`",
        needs="evaluation points whose sorting permutation is not an involution (>= 3 points, e.g. a rotation)",
        caught_by="value nord=2 nbk=3 npts=3 (caller-order assertion)",
        initially_missed=True,
        strengthening="caller-order obligations had 2 points (every permutation of 2 is an involution); added 3-point obligations"),
    'C09-single-point-segment': dict(
        change="bspline.fit: `if ict > 0` -> `if ict > 1` in the normal-equation accumulation",
        needs="a breakpoint interval holding exactly one data point in a full-rank problem",
        caught_by="fit 'single8' layout (one point alone in its interval), normal-equation assertion",
        initially_missed=True,
        strengthening="fit layouts had >= 2 points per interval; added the layout with a single point in one interval"),
    'C10-maskwork-unsorted': dict(
        change="iterfit: `maskwork = (outmask & (invvar > 0))[xsort]` lost its `[xsort]`",
        needs="unsorted x and an invvar <= 0 whose caller position differs from its sorted position",
        caught_by="iterfit n=4 w=zero1 perms=2 (mask permutes with the input)",
        initially_missed=False),
    'C11-fullcombmask-ones': dict(
        change="combine1fiber: `fullcombmask = np.zeros(npix)` -> `np.ones(npix)`",
        needs="an isolated zero-weight interior pixel and an output grid off the input grid",
        caught_by="combine1fiber shift6 free=ivzero (inverse variance 0 next to a bad pixel)",
        initially_missed=False),
    'C12-usencaps-popcount': dict(
        change="is_in_polygon: loop bound min(usencaps, popcount(use_caps))",
        needs="a use_caps mask with a gap (an unused cap below a used one)",
        caught_by="is_in_polygon caps=2 (use_caps symbolic)",
        initially_missed=False),
    'C13-inputans-free-slots': dict(
        change="func_fit: `inputans * (1 - ia)` -> `inputans` when pre-subtracting the fixed part",
        needs="ia with a False entry and inputans non-zero at a free slot",
        caught_by="func_fit legendre n=6 nc=4 ia=(T,F,T,T) (normal equations for the free coefficients)",
        initially_missed=False),
    'C14-rebin-sliceobj1': dict(
        change="rebin: `sliceobj1` initialisation hoisted out of the per-axis loop",
        needs="ndim >= 2, sample=False, two axes both expanded",
        caught_by="rebin (2,2)->(4,4) sample=0",
        initially_missed=False),
    'C15-gstep-N-vs-M': dict(
        change="HMF.gstep: penalty diagonal edge test `l < M-1` -> `l < N-1`",
        needs="epsilon > 0 and N != M",
        caught_by="HMF.gstep N=2 M=3 K=1 eps=1/2 (gradient of chi-square + penalty vanishes)",
        initially_missed=False),
    'C16-double-argsort': dict(
        change="readspec: `j = allpmjdindex.argsort()` -> `.argsort().argsort()`",
        needs="a request whose grouping permutation is not an involution (>= 3 rows over >= 2 plate-MJD files, unsorted)",
        caught_by="readspec 3 requests, symbolic plate/mjd ('latest' variant included)",
        initially_missed=True,
        strengthening="readspec obligations had 2 requests (every permutation an involution); added 3-request obligations"),
    'C17-grow-last-sample': dict(
        change="djs_reject: out-of-range fallback of the upper grow neighbour `n-1` -> the point itself",
        needs="grow >= 1 and a rejected point within grow of the last sample",
        caught_by="djs_reject grow obligations (outmask == specification)",
        initially_missed=False),
    'C19-maskinterp-axis': dict(
        change="filter_thru: `djs_maskinterp(flux, mask, axis=0)` -> `axis=1`",
        needs="a non-zero mask passed to filter_thru",
        caught_by="filter_thru with mask (result independent of masked pixel values)",
        initially_missed=False),
    'C20-close-in-finally': dict(
        change="window_score: `flist.close()` moved into `finally` in front of the PHOTO_CALIB restore",
        needs="HDUList.close() raising",
        caught_by="window_score fault schedule (each external call may raise, close included)",
        initially_missed=False),
}


INFO.update({
    'r2-C01': dict(
        change="yanny.protect: `s.find('#') >= 0` -> `> 0` (a cell starting with '#' and free of blanks is written unquoted)",
        needs="a string cell or array element that starts with '#' and contains no white space",
        caught_by="strings obligations (symbolic characters include '#' in first position)", initially_missed=False),
    'r2-C02': dict(
        change="yanny.isenum: labels found with `re.findall(r'(\\w+)\\s*[,\\n]', body)` instead of splitting at commas",
        needs="an enum typedef whose last label shares a line with the closing brace, and that label strictly the longest",
        caught_by="layout enum-layout (typedef layout chosen by the solver, longest label last)", initially_missed=True,
        strengthening="the enum typedef had one fixed layout and its longest label first; layout made a solver choice, longest label last and used in a row"),
    'r2-C03': dict(
        change="yanny.append: `key.upper() in self.tables()` -> `key.upper() in self`",
        needs="an appended pair whose upper-cased name is already a key of the object (e.g. 'mjd' next to an existing 'MJD')",
        caught_by="append-pairs op (a second appended key differs from an existing pair by letter case only)", initially_missed=True,
        strengthening="appended keys were always fresh names; the start document now has an upper-case pair and every append-pairs step adds a case variant of it"),
    'r2-C04': dict(
        change="chunks.assign (second loop): `raChunk > nRa-1` -> `raChunk > nRa` (index nRa no longer wraps to cell 0)",
        needs="a second-list point just below RA 360 next to a first-list point just above 0 in a row that covers the full circle",
        caught_by="chunk hash obligations (the real chunks on symbolic right ascensions)", initially_missed=True,
        strengthening="the spatial hash was stubbed out and not claimed; box-completeness obligations on the real chunks class were built"),
    'r2-C05': dict(
        change="groups.__init__: neighbour scan `range(nTargets)` -> `range(i, nTargets)`",
        needs="a chain of >= 5 points in one chunk in a particular input order",
        caught_by="groups n=5 (symbolic distance matrix)", initially_missed=False),
    'r2-C06': dict(
        change="sdss_objid: field range check `.any()` -> `.all()`",
        needs="an array call mixing in-range and out-of-range field values",
        caught_by="objid array n=2 (out-of-range field must be rejected)", initially_missed=False),
    'r2-C07': dict(
        change="sdss_flagval: per-label uint64 accumulation -> `np.uint64(np.sum(np.uint64(2)**np.array(bits)))` (float64 sum)",
        needs="two or more labels whose bits span 53 or more positions",
        caught_by="flagval labels=2 with one label at bit 63", initially_missed=True,
        strengthening="the engine computed uint64 ** int64-array exactly; NumPy's promotion to float64 is now modelled (loader rewrite 9b, core.ZA, binary64 terms)"),
    'r2-C08': dict(
        change="bsplvn: Cox-de Boor denominator indices swapped (`deltap[:, j-l] + deltam[:, l]`)",
        needs="order >= 3 and unevenly spaced knots",
        caught_by="basis nord=3 symbolic knots (sum to one / value identity)", initially_missed=False),
    'r2-C09': dict(
        change="bspline.maskpoints: `self.mask.nonzero()[0][test]` -> `test.nonzero()[0]`",
        needs="a second fit failure on the same bspline object after breakpoints were already masked, at higher x",
        caught_by="refit two gaps (sequence of fits on one object)", initially_missed=True,
        strengthening="ill-posed cases used a fresh object each and only asked for 'some breakpoint masked'; the refit obligations open two gaps in sequence and require the mask to address every unsupported coefficient"),
    'r2-C10': dict(
        change="iterfit: `inmask = maskwork` moved out of the rejection loop (rejected points can come back)",
        needs="maxiter >= 1 and a point rejected only because an outlier dragged the first fit",
        caught_by="iterfit with rejection (mask equals that of the documented fit-reject-refit procedure)", initially_missed=False),
    'r2-C11': dict(
        change="combine1fiber: per-exposure `inbetween` window uses the range of the whole stack",
        needs="a stack of exposures with different coverage and an isolated zero-weight pixel where only one exposure has data",
        caught_by="combine1fiber stack obligations", initially_missed=True,
        strengthening="only single spectra were modelled (the variance smoothing needs 101 pixels); stacks of two exposures with the smoothing as an arbitrary positive value were added"),
    'r2-C12': dict(
        change="set_use_caps: duplicate test on a snapshot of use_caps, bit removed by subtraction",
        needs="the same cap selected three or more times",
        caught_by="set_use_caps ncaps=3 (symbolic caps, every duplicate pattern)", initially_missed=False),
    'r2-C13': dict(
        change="TraceSet.has_jump: `self.xjumplo is not None` -> `bool(self.xjumplo)`",
        needs="a jump that starts at exactly 0",
        caught_by="TraceSet jump variant 2 (xjumplo = 0)", initially_missed=True,
        strengthening="one concrete jump placement (2..4) was used; variants starting at 0 and ending at 0 added"),
    'r2-C14': dict(
        change="median (2-D, width): column edge bound uses shape[0] instead of shape[1]",
        needs="a non-square 2-D array",
        caught_by="median2d 3x5 / 5x3", initially_missed=True,
        strengthening="the quick tier had the square 3x3 case only (3x4, 4x3 in the thorough tier); 3x5 and 5x3 added to the quick tier"),
    'r2-C15': dict(
        change="computechi2.covar: singular-value guard `ww > 0` -> `ww > eps`",
        needs="a full-rank system whose normal matrix has singular values below 2.2e-16 (small-scale data)",
        caught_by="computechi2 2 parameters (svd contract stub, symbolic singular values)", initially_missed=True,
        strengthening="computechi2 was not claimed (LAPACK svd); a verified svd contract stub and obligations for 2-parameter systems were built"),
    'r2-C16': dict(
        change="spec_append: first block written at column `maxpix-npix1` instead of `nadd1`",
        needs="an appended block wider than the accumulated one",
        caught_by="spec_append (1,2)+(1,2) symbolic widths/shift", initially_missed=False),
    'r2-C17': dict(
        change="djs_maskinterp1 (xval, const): `ynew[ii[igood[0]]]` -> `ynew[igood[0]]`",
        needs="xval not ascending, const=True, masked samples at the low-x end",
        caught_by="maskinterp 1-D with symbolic x (any order)", initially_missed=False),
    'r2-C19': dict(
        change="vactoair: array branch writes into a buffer of the input's dtype",
        needs="an integer-typed wavelength array with a value >= 2000 A",
        caught_by="air/vacuum integer array obligations", initially_missed=True,
        strengthening="array obligations used real-valued arrays only; integer-typed arrays added"),
    'r2-C20': dict(
        change="template_input: restore test `orig_run[r] is None` -> `not orig_run[r]`",
        needs="RUN2D or RUN1D present but empty on entry",
        caught_by="fault schedule with three-valued initial state (absent / set / empty)", initially_missed=True,
        strengthening="initial states were absent / set; 'set to the empty string' added"),
})


INFO.update({
    'r3-C01': dict(change="dtype_to_struct: the enum type name in the struct member line is no longer upper-cased (the typedef line still is)",
                   needs="an enum whose type name contains a lower-case letter", caught_by="misc enum (type name chosen by the solver among upper / mixed / lower case)",
                   initially_missed=True, strengthening="the enum type name was the fixed 'ETYPE'; it is now a solver choice among three spellings"),
    'r3-C02': dict(change="yanny.type(): only the first `<`..`>` pair of a legacy array declaration is rewritten",
                   needs="a 2-D char column declared with legacy <n> on both dimensions and a string longer than the array count, record mode",
                   caught_by="layout legacy-angle (tags<2><4> holding 3- and 4-character strings)", initially_missed=True,
                   strengthening="the strings in the 2-D legacy column were never longer than its array count; they now are"),
    'r3-C03': dict(change="yanny.write: `self.filename = newfile` moved in front of the existence check",
                   needs="a refused write to an existing file followed by a non-empty append",
                   caught_by="history op write-over-existing (object still bound to its own file)", initially_missed=False),
    'r3-C04': dict(change="spherematch: both maxmatch passes use a test-and-increment helper joined by `and` (a rejected pair consumes a slot of its first-list point)",
                   needs="maxmatch > 0 and a contested match whose loser has another candidate", caught_by="spherematch 2x2 maxmatch=1 (greedy characterisation)", initially_missed=False),
    'r3-C05': dict(change="chunks.friendsoffriends second pass: renumbering by a precomputed cumsum of roots with a single-hop lookup",
                   needs="a component spanning >= 4 chunk groups merged in a particular order next to an unrelated group",
                   caught_by="spheregroup chain obligations (symbolic chunk order)", initially_missed=False),
    'r3-C06': dict(change="sdss_specobjid: MJD branches merged into an in-place `mjd -= 50000` (the caller's array is overwritten)",
                   needs="an array MJD argument used again after the call", caught_by="specobjid array (the array arguments are not modified)", initially_missed=True,
                   strengthening="nothing looked at the arguments after the call; 'arguments unchanged' is now asserted"),
    'r3-C07': dict(change="set_maskbits: 'group already in cache' test replaced by 'same flag as the previous row'",
                   needs="a maskbits file in which the rows of one group are not contiguous", caught_by="flagval / errors with the row order a solver choice", initially_missed=True,
                   strengthening="generated files listed each group's rows together; an interleaved order is now a solver choice"),
    'r3-C08': dict(change="bspline.__init__: the 'highest breakpoint does not cover' fix-up became `elif`",
                   needs="breakpoints that miss the data range at both ends", caught_by="construct bkpt (symbolic breakpoints and data)", initially_missed=False),
    'r3-C09': dict(change="cholesky_band: fallback localisation loop `range(n-1)`", needs="a matrix that is non-positive-definite only at its last leading minor",
                   caught_by="cholesky_band n=2 bw=2 (symbolic matrix)", initially_missed=False),
    'r3-C10': dict(change="iterfit: the rejection pass is skipped once the iteration budget is used up", needs="rejection still making progress at maxiter (e.g. maxiter=0 with an outlier)",
                   caught_by="iterfit maxiter=0 (mask of the documented procedure)", initially_missed=False),
    'r3-C11': dict(change="preprocess_spectra: in-place `rowloglam -= logshift[iobj]` (shifts accumulate across objects)",
                   needs="one 1-D loglam shared by >= 2 objects, an earlier object with z != 0", caught_by="preprocess_spectra nobj=2", initially_missed=False,
                   note="found symbolically from the start; the replay branch for this obligation was missing and was added"),
    'r3-C12': dict(change="ManglePolygon keyword constructor: `if 'use_caps' in kwargs` -> `if kwargs.get('use_caps')`", needs="an explicit use_caps=0 on a polygon with caps",
                   caught_by="is_in_polygon caps=1 (use_caps symbolic, includes 0)", initially_missed=False),
    'r3-C13': dict(change="func_fit: in-place `finalarr *= (invvar > 0)` zeroes the basis columns of zero-weight points", needs="a zero-weight point, no fixed parameter, yfit read at that point",
                   caught_by="func_fit w=zero (returned fit = basis times coefficients)", initially_missed=False),
    'r3-C14': dict(change="rebin shrink with sample: picks the sample nearest the block centre instead of the first", needs="sample=True and a shrink factor >= 3",
                   caught_by="rebin (3,)->(1,) sample=1", initially_missed=False),
    'r3-C15': dict(change="computechi2.chi2 multiplies the cached yfit by sqivar in place", needs="chi2 and yfit both read on one result object, non-unit weights",
                   caught_by="computechi2 2 parameters (fitted values = A x)", initially_missed=False,
                   note="found symbolically from the start; the replay read yfit before chi2 and was corrected to the order of the symbolic run"),
    'r3-C16': dict(change="readspec: loglam0 cached across the plate-MJD loop unless NAXIS1 changes", needs="two plate-MJD files with equal pixel count and different COEFF0/COEFF1",
                   caught_by="readspec n=2 (loglam = COEFF0 + COEFF1*pixel)", initially_missed=True,
                   strengthening="the synthetic survey gave both MJDs of a plate the same wavelength solution; every file now has its own"),
    'r3-C17': dict(change="skymask: the two flag tests accumulate a count instead of a 0/1 flag", needs="ngrow=0 and a pixel carrying both BADSKYCHI and REDMONSTER",
                   caught_by="skymask 1x3 ngrow=0 (symbolic masks)", initially_missed=False),
    'r3-C19': dict(change="sdssflux2ab: correction factor became a module constant that the ivar branch overwrites in place", needs="a call after an ivar=True call in the same process",
                   caught_by="sdssflux2ab (repeated call gives the same answer)", initially_missed=True,
                   strengthening="each form was called once; the flux and ivar forms are now called again after the others"),
    'r3-C20': dict(change="window_score: the PHOTO_RESOLVE lookup moved between `del os.environ['PHOTO_CALIB']` and the try/finally", needs="PHOTO_CALIB set and PHOTO_RESOLVE unset",
                   caught_by="window_score fault schedule (initial presence symbolic)", initially_missed=False),
})

INFO.update({
    'r4-C01': dict(change="yanny.pairs(): keys filtered with `k not in self._symbols` instead of against self.tables()", needs="a header keyword spelled exactly `struct` or `enum`",
                   caught_by="misc header-keys / header-keys-table (keyword name a solver choice, among them the words the parser uses for its own bookkeeping)", initially_missed=True,
                   strengthening="header keywords were the fixed names 'keyword' and 'num'; the name is now chosen by the solver from a list that contains struct, enum, typedef, symbols, char, id"),
    'r4-C02': dict(change="get_token(): bare-word branch uses `string.split(None, 1)` instead of `re.split(r'\\s+', string, 1)`", needs="a brace-wrapped array cell with a blank or tab before the closing brace and a bare last element",
                   caught_by="layout array-padding (padding inside the braces of array cells chosen by the solver)", initially_missed=True,
                   strengthening="the engine's str.split(None, k) ignored maxsplit (a non-reproducing counterexample, exit 3, on the first run) - now CPython's rule, validated against str on every run; array cells were rendered without inner padding, which is now a solver choice"),
    'r4-C03': dict(change="append(): 'nothing to append' judged from `len(datatable) == 0`; the comment header becomes the initial contents and is always written", needs="append() given a non-empty dict that carries no rows and no pairs (zero-length record array, empty column lists)",
                   caught_by="history op append-empty (the spelling of 'nothing' chosen by the solver)", initially_missed=True,
                   strengthening="append-empty only tried {}; it now also tries empty lists and zero-length record arrays under either letter case; the replay compares file contents, not the directory listing"),
    'r4-C04': dict(change="chunks.getbounds(): the two `while` loops spreading a point over every declination slice within the margin became `if`", needs="declination slices narrower than the match length (grid clipped next to a pole) and a pair that straddles a whole slice",
                   caught_by="chunk hash polar-narrow", initially_missed=True,
                   strengthening="every hash configuration had slices wider than the match length; a polar configuration (chunk size 1, match length 0.95, Dec 88.5 / 89.5) was added"),
    'r4-C05': dict(change="spheregroup(): renumbering loop replaced by `order = argsort(firstgroup); ingroup = order[ingroup]` (inverse permutation)", needs=">= 3 groups whose order of first appearance is a rotation of the chunk traversal order",
                   caught_by="spheregroup n=3 chunks=2 (numbering by first member, first[], next[])", initially_missed=False),
    'r4-C06': dict(change="unwrap_specobjid: decimal-string IDs converted through `astype(np.float64).astype(np.uint64)`", needs="a decimal-string ID with bits beyond float64's 53-bit mantissa",
                   caught_by="unwrap spec decimal string digits=19", initially_missed=True,
                   strengthening="first run inconclusive (exit 2: float() of a symbolic string unsupported); float() of an all-digit symbolic string is now the correctly rounded binary64 of the integer it spells (fpUnsignedToFP), the solver then finds a 19-digit ID that does not survive"),
    'r4-C07': dict(change="sdss_flagname: the group lookup (KeyError for unknown groups) hoisted out of the per-bit loop", needs="an unknown group together with the value 0",
                   caught_by="errors labels=2 (a zero value names no bits in any group)", initially_missed=False),
    'r4-C08': dict(change="bspline.action(): `lower[1:] = upper[:-1] + 1` instead of the independent reversed uniq()", needs="evaluation points that leave a whole breakpoint interval empty, with points on both sides",
                   caught_by="value nord=4 nbk=5 knots=gap npts=3", initially_missed=False),
    'r4-C09': dict(change="maskpoints(): the two np.where clamps replaced by `np.clip(hmm+jj, 0, n)` (upper bound off by one)", needs="the failing coefficient is the last one, nord >= 4, more than one segment",
                   caught_by="ill-posed tail_zero4", initially_missed=True,
                   strengthening="every ill-posed case had its unsupported stretch in the middle or at order <= 3; cases with the zero-weight stretch at either end at order 3 and 4 and breakpoints beyond the data were added"),
    'r4-C10': dict(change="iterfit: djs_reject gets `invvar=invvar` (caller order) instead of `invvar=invwork` (sorted)", needs="unsorted x and non-uniform weights",
                   caught_by="iterfit with rejection on permuted input (mask of the documented procedure)", initially_missed=False,
                   note="besides the reproduced violations one symbolic counterexample of the permutation obligation did not reproduce on the changed tree (HARNESS-ERROR line, exit code still 1)"),
    'r4-C11': dict(change="combine1fiber: 'all spline coefficients are zero' test `== 0` became `< EPS`", needs="spline coefficients below 1.2e-7 in absolute sum (fluxes of order 1e-10 or a scaling-law test with small c)",
                   caught_by="combine1fiber ivar scaling same5 (flux scaled by c, inverse variance by 1/c^2, fit outcome scaling with the data)", initially_missed=True,
                   strengthening="the fit stub returned the fixed coefficient 1 and only the inverse variance was scaled; coefficients are symbolic (non-zero) now and a third run scales flux, inverse variance and the stub's outcome together"),
    'r4-C12': dict(change="cap_distance: `if cm < 0: cdist *= -1` became `return np.sign(cm) * cdist`", needs="a cap with cm exactly 0",
                   caught_by="is_in_cap at_centre=0, is_in_polygon caps=1, is_in_window", initially_missed=True,
                   strengthening="the harness assumed cm != 0 (an over-constrained precondition); removed.  First run: exit 3 from a non-reproducing binary64 counterexample, no VIOLATION line"),
    'r4-C13': dict(change="TraceSet.xy(): default grid built with np.linspace(xmin, xmax, nx)", needs="xmax - xmin with a fractional part and no xpos given",
                   caught_by="TraceSet chebyshev 2x4 (default grid runs from xmin in unit steps)", initially_missed=False),
    'r4-C14': dict(change="median (no width, no axis): even/odd decided by `len(array) % 2` instead of the element count", needs="an N-D input with an odd first axis and an even total count",
                   caught_by="median n=6 even=0 shape=(3, 2)", initially_missed=True,
                   strengthening="the median without a width was only run on 1-D input; 2-D and 3-D shapes added"),
    'r4-C15': dict(change="computechi2.var computed from the SVD through `wwt = self.ww` without a copy (reading var overwrites the singular values)", needs="var read before the first read of covar on one object",
                   caught_by="computechi2 2 parameters read_order=1 (var read before covar)", initially_missed=True,
                   strengthening="the results were read in one fixed order; there is now one obligation per reading order (four orders that contain every ordered pair of attributes), and each result is read twice"),
    'r4-C16': dict(change="readspec: table columns re-ordered by scatter `column[j] = data` instead of gather `data[j]`", needs=">= 2 plate-MJD groups whose grouping permutation is not self-inverse",
                   caught_by="readspec n=3 latest (photometry / redshift row i belongs to request i)", initially_missed=False),
    'r4-C17': dict(change="djs_reject: `qdone` from equal mask sums instead of equal masks", needs="a later iteration, not sticky, as many points returning as newly rejected",
                   caught_by="reject n=2 ... (completion reported exactly when the mask did not change)", initially_missed=False),
    'r4-C19': dict(change="filter_thru: `logdiff = np.absolute(logdiff)` removed", needs="a trace whose wavelengths decrease with pixel index",
                   caught_by="filter_thru 1x6 9200-3800", initially_missed=True,
                   strengthening="every wavelength image was ascending; a descending one was added (first run: no violation and 10x slower)"),
    'r4-C20': dict(change="template_metadata exports every parameter-file keyword starting with `run`; only the success path restores them all", needs="a parameter file with an extra `run*` keyword and a failure after the metadata were read",
                   caught_by="fault injection template_input (unknown extra keyword chosen by the solver)", initially_missed=True,
                   strengthening="the yanny stub returned a plain dict with the known keywords only (the changed code failed on `.pairs()` - a failure path that restores - and passed); the stub is now a mapping with pairs() / tables() and an extra keyword (none / rundate / home) chosen by the solver"),
})

RAN = ["in the scratch worktree: /venv/bin/python -m pytest -q -p no:cacheprovider (with the change)",
       "in the scratch worktree: /venv/bin/python _seed/demo.py with the change and after `git apply -R _seed/patch.diff`",
       "git -C /repo apply patch.diff; cd /verif && ./check <PID> --tier quick; git -C /repo checkout -- .",
       "git -C /repo worktree remove --force <worktree>"]


def main():
    for name, info in sorted(INFO.items()):
        p = os.path.join(HERE, 'seeded', name, 'meta.json')
        if not os.path.exists(p):
            print('missing', p)
            continue
        m = json.load(open(p))
        m.update({'breaks_property': m.get('property'), 'change': info['change'], 'needs_to_manifest': info['needs'],
                  'origin': ('independent sub-agent given only the property text and a scratch worktree of /repo' if not name.startswith(('r2-', 'r3-', 'r4-')) else
                             'later round: independent sub-agent given the property text, a scratch worktree of /repo and one sentence naming '
                             'which clause / function of the property to change, so that it differs from the first round'),
                  'ran': RAN, 'caught_by': info['caught_by'], 'initially_missed': info['initially_missed']})
        if info.get('strengthening'):
            m['strengthening'] = info['strengthening']
        if info.get('note'):
            m['note'] = info['note']
        json.dump(m, open(p, 'w'), indent=1)
        open(p, 'a').write('\n')
    return 0


if __name__ == '__main__':
    sys.exit(main())
