#!/bin/sh
# tools/mutant.sh <PID> <file-relative-to-repo> <sed-expression> : apply a one-line mutant, run the quick check, undo.
cd /repo || exit 9
if [ -n "$(git status --porcelain)" ]; then echo "repo dirty"; exit 9; fi
sed -i "$3" "$2"
if [ -z "$(git status --porcelain)" ]; then echo "MUTANT-NOOP $1 $2 $3"; exit 8; fi
cd /verif && ./check "$1" --tier "${TIER:-quick}" 2>&1 | grep -v "^replay\|^$" | cut -c1-220 | grep -E "VIOLATION|INCONCLUSIVE|HARNESS-ERROR|exit=" | head -${LINES_MAX:-3}
cd /repo && git checkout -- . 
