#!/bin/sh
# tools/seedrun.sh <seed-name> [tier] [extra check args] : apply a stored seeded change to /repo, run its property's check, undo.
NAME=$1; TIER=${2:-quick}; shift; shift 2>/dev/null
D=/verif/seeded/$NAME
PID=$(python3 -c "import json,sys; print(json.load(open('$D/meta.json'))['property'])")
[ -z "$(git -C /repo status --porcelain)" ] || { echo "/repo dirty"; exit 9; }
git -C /repo apply $D/patch.diff || { echo "patch does not apply"; exit 9; }
cd /verif
OUT=$(./check $PID --tier $TIER "$@" 2>&1); RC=$?
git -C /repo checkout -- .
echo "$OUT" | grep -E "^VIOLATION|^INCONCLUSIVE|^HARNESS-ERROR|^KNOWN|exit=" | cut -c1-300 | head -8
echo "check rc=$RC"
