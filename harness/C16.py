"""C16 - readspec returns each requested spectrum in request order, unshifted; spec_append."""
import itertools
import numpy as np
import z3

from pathsym import core, symnp
from pathsym.core import R, B, Z, zt
from .common import Obligation

PID = 'C16'

META = {
    'functions_encoded': ['pydl.pydlspec2d.spec1d.readspec', 'spec_append', 'spec_path', 'latest_mjd', 'number_of_fibers'],
    'stubs': ['astropy.io.fits.open -> synthetic survey: every pixel of every HDU of every plate-MJD file is a distinct symbol '
              'D(plate, mjd, hdu, row, pixel), so the provenance of every output element is visible in its term',
              'glob.glob, os.path.exists (symbolic: photoPlate / spZbest present or not), os.environ -> stubs'],
    'assumptions': ['the request vector is drawn from a 2-plate x 2-MJD synthetic survey with 3 fibres per plate and different pixel counts; '
                    'plates, MJDs and fibres of each request are solver-chosen selectors (concretised on demand)'],
    'outside_bounds': 'real FITS I/O; requests longer than 3; the align=True re-gridding; znum',
}

PLATES = (3804, 266)
MJDS = {3804: (55267, 55300), 266: (55025, 55100)}
NPIX = {3804: 4, 266: 6}
NFIB = 3
HDUS = ('flux', 'invvar', 'andmask', 'ormask', 'disp', 'plugmap', 'sky')
# a different wavelength solution in every plate-MJD file (two files of one plate have the same pixel count)
COEFF = {(3804, 55267): (3.5, 0.0001), (3804, 55300): (3.5625, 0.000125), (266, 55025): (3.625, 0.0002), (266, 55100): (3.75, 0.00025)}


class Table(object):
    def __init__(self, cols):
        self.cols = cols
        self.columns = type('C', (), {'names': list(cols)})()

    def __getitem__(self, key):
        if isinstance(key, str):
            return self.cols[key]
        return Table({k: v[key] for k, v in self.cols.items()})

    def field(self, name):
        return self.cols[name]


class World(object):
    def __init__(self, value, has_photo, has_z):
        self.value = value          # value(kind, plate, mjd, hdu, row, pix) -> element
        self.has_photo = has_photo
        self.has_z = has_z
        self.opened = []

    def image(self, kind, p, m, k, nrow, npix):
        a = np.empty((nrow, npix), dtype=object)
        for r in range(nrow):
            for x in range(npix):
                a[r, x] = self.value(kind, p, m, k, r, x)
        return self._final(a)

    def column(self, kind, p, m, name, nrow):
        a = np.empty((nrow,), dtype=object)
        for r in range(nrow):
            a[r] = self.value(kind, p, m, name, r, 0)
        return self._final(a)

    def _final(self, a):
        return a

    def fits_open(self, filename, *a, **k):
        import re
        self.opened.append(filename)
        base = filename.split('/')[-1]
        m = re.match(r'(spPlate|photoPlate|spZbest|spZall)-(\d{4})-(\d{5})\.fits', base)
        if base == 'platelist.fits':
            pl, mj = [], []
            for p in PLATES:
                for mm in MJDS[p]:
                    pl.append(p)
                    mj.append(mm)
            n = len(pl)
            t = Table({'N_TOTAL': np.array([NFIB] * n), 'PLATE': np.array(pl), 'MJD': np.array(mj),
                       'RUN2D': np.array(['v5_7_0'] * n), 'RUN1D': np.array(['v5_7_0'] * n)})
            return _HDUL([None, _HDU(t, {})])
        if not m:
            raise OSError('no such file ' + filename)
        kind, p, mj = m.group(1), int(m.group(2)), int(m.group(3))
        if p not in PLATES or mj not in MJDS[p]:
            raise OSError('no such file ' + filename)
        if kind == 'spPlate':
            hd = {'NAXIS1': NPIX[p], 'COEFF0': COEFF[(p, mj)][0], 'COEFF1': COEFF[(p, mj)][1]}
            hdus = []
            for k, name in enumerate(HDUS):
                if name == 'plugmap':
                    t = Table({'FIBERID': np.arange(1, NFIB + 1), 'TAG': self.column('plug', p, mj, 'TAG', NFIB)})
                    hdus.append(_HDU(_TableData(t), {}))
                else:
                    hdus.append(_HDU(self.image('spPlate', p, mj, k, NFIB, NPIX[p]), hd if k == 0 else {}))
            return _HDUL(hdus)
        if kind == 'photoPlate':
            t = Table({'PHOTOTAG': self.column('photo', p, mj, 'PHOTOTAG', NFIB)})
            return _HDUL([_HDU(None, {}), _HDU(_TableData(t), {})])
        t = Table({'Z': self.column('z', p, mj, 'Z', NFIB), 'FIBERID': np.arange(1, NFIB + 1)})
        return _HDUL([_HDU(None, {'DIMS0': 1}), _HDU(_TableData(t), {})])

    def exists(self, path):
        base = path.split('/')[-1]
        if base.startswith('photoPlate'):
            return self.has_photo
        if base.startswith('spZ'):
            return self.has_z
        return True

    def glob(self, pattern):
        import re
        m = re.search(r'spPlate-(\d{4})-\*\.fits', pattern)
        p = int(m.group(1))
        d = pattern.rsplit('/', 1)[0]
        return ['%s/spPlate-%04d-%05d.fits' % (d, p, mm) for mm in MJDS.get(p, ())]


class _TableData(object):
    """FITS_rec stand-in: 2-D style indexing raises IndexError like a record array does"""

    def __init__(self, table):
        self.t = table
        self.columns = table.columns

    def __getitem__(self, key):
        if isinstance(key, tuple):
            raise IndexError('too many indices for array')
        return self.t[key]

    def field(self, name):
        return self.t.field(name)


class _HDU(object):
    def __init__(self, data, header):
        self.data = data
        self.header = header
        self.columns = getattr(data, 'columns', None)


class _HDUL(list):
    def close(self):
        pass


def install(world, spec1d):
    import os as real_os
    saved = {k: spec1d.__dict__.get(k) for k in ('fits', 'os', 'glob', 'log')}

    class Fits(object):
        open = staticmethod(world.fits_open)

    class Path(object):
        join = staticmethod(real_os.path.join)
        basename = staticmethod(real_os.path.basename)
        exists = staticmethod(world.exists)

    class OS(object):
        path = Path
        environ = {'RUN2D': 'v5_7_0', 'RUN1D': 'v5_7_0', 'BOSS_SPECTRO_REDUX': '/redux', 'SPECTRO_REDUX': '/redux',
                   'SPECTRO_MATCH': '/match', 'PHOTO_RESOLVE': '/resolve/2010-05-23'}

    class Glob(object):
        glob = staticmethod(world.glob)

    class Log(object):
        def info(self, *a, **k):
            pass
        debug = warning = error = info
    spec1d.fits, spec1d.os, spec1d.glob, spec1d.log = Fits, OS, Glob, Log()
    return saved


def uninstall(spec1d, saved):
    for k, v in saved.items():
        spec1d.__dict__[k] = v


def _expected_rows(req, world):
    """oracle: row i of every output belongs to request i"""
    out = []
    for (p, m, f) in req:
        out.append((p, m, f - 1))
    return out


def _check_outputs(req, res, world, elem_eq, fail):
    n = len(req)
    npixmax = max(NPIX[p] for p, m, f in req)
    for name in ('flux', 'invvar', 'andmask', 'ormask', 'disp', 'sky'):
        k = HDUS.index(name)
        img = res[name]
        if tuple(img.shape) != (n, npixmax):
            fail('readspec: %s has one row per request and the largest pixel count' % name, {'shape': list(img.shape)})
            continue
        for i, (p, m, f) in enumerate(req):
            for x in range(npixmax):
                exp = world.value('spPlate', p, m, k, f - 1, x) if x < NPIX[p] else 0
                if not elem_eq(img[i, x], exp):
                    fail('readspec: row i of %s is row fibre-1 of request i\'s plate-MJD file, zero-padded on the right, unshifted' % name,
                         {'i': i, 'x': x})
    ll = res['loglam']
    for i, (p, m, f) in enumerate(req):
        for x in range(NPIX[p]):
            if abs(float(ll[i, x]) - (COEFF[(p, m)][0] + COEFF[(p, m)][1] * x)) > 1e-12:
                fail('readspec: loglam = COEFF0 + COEFF1*pixel for every row', {'i': i, 'x': x})
    for i, (p, m, f) in enumerate(req):
        if int(res['plugmap']['FIBERID'][i]) != f:
            fail('readspec: plug-map row i belongs to request i', {'i': i})
        if not elem_eq(res['plugmap']['TAG'][i], world.value('plug', p, m, 'TAG', f - 1, 0)):
            fail('readspec: plug-map columns of row i come from request i\'s file', {'i': i})
        if world.has_z and not elem_eq(res['zans']['Z'][i], world.value('z', p, m, 'Z', f - 1, 0)):
            fail('readspec: redshift row i belongs to request i', {'i': i})
        if world.has_photo and not elem_eq(res['tsobj']['PHOTOTAG'][i], world.value('photo', p, m, 'PHOTOTAG', f - 1, 0)):
            fail('readspec: photometry row i belongs to request i', {'i': i})


def ob_readspec(n, convention):
    """convention: 'vector' (arrays for all three), 'scalar_plate' (one plate, vector of fibres), 'all_fibers', 'latest'"""
    def fn(ctx):
        import pydl.pydlspec2d.spec1d as spec1d
        syms = {}

        def value(kind, p, m, k, r, x):
            key = 'D_%s_%d_%d_%s_%d_%d' % (kind, p, m, k, r, x)
            if key not in syms:
                syms[key] = R(z3.Real(key))
            return syms[key]
        has_photo = bool(ctx.bool('has_photo'))
        has_z = bool(ctx.bool('has_z'))
        world = World(value, has_photo, has_z)
        # request selectors
        req = []
        if convention in ('vector', 'latest'):
            for i in range(n):
                p = PLATES[int(ctx.int('plate%d' % i, 0, 1))]
                m = MJDS[p][1] if convention == 'latest' else MJDS[p][int(ctx.int('mjd%d' % i, 0, 1))]
                f = int(ctx.int('fiber%d' % i, 1, NFIB))
                req.append((p, m, f))
        elif convention == 'scalar_plate':
            p = PLATES[int(ctx.int('plate0', 0, 1))]
            m = MJDS[p][int(ctx.int('mjd0', 0, 1))]
            for i in range(n):
                req.append((p, m, int(ctx.int('fiber%d' % i, 1, NFIB))))
        else:   # all fibres of one or two plates (latest MJD)
            chosen = [PLATES[int(ctx.int('plate%d' % i, 0, 1))] for i in range(n)]
            ctx.assume(len(set(chosen)) == len(chosen))
            for p in sorted(set(chosen)):
                for f in range(1, NFIB + 1):
                    req.append((p, MJDS[p][1], f))
        d = {'fn': 'readspec', 'n': n, 'convention': convention, 'req': [list(r) for r in req], 'has_photo': has_photo, 'has_z': has_z}
        ctx.detail = d
        ctx.add(z3.Real('touch') == 0)
        saved = install(world, spec1d)
        try:
            res = _call(spec1d, req, convention, n)
        finally:
            uninstall(spec1d, saved)

        def elem_eq(a, b):
            return bool(R.lift(a) == R.lift(b)) if not (isinstance(a, (int, float, np.number)) and isinstance(b, (int, float))) else a == b

        def fail(label, extra):
            ctx.require(False, label, dict(d, **extra))
        _check_outputs(req, res, world, elem_eq, fail)
        ctx.require(z3.Real('touch') == 0, 'readspec outputs checked', d)
    return Obligation('readspec n=%d %s' % (n, convention), fn, bounds='%d requests over a 2x2 survey, 3 fibres' % n, max_paths=400000,
                      max_seconds=1700)


def _call(spec1d, req, convention, n):
    kw = dict(path='/redux/v5_7_0/plates', run2d='v5_7_0', run1d='v5_7_0')
    if convention == 'vector':
        return spec1d.readspec(np.array([r[0] for r in req]), mjd=np.array([r[1] for r in req]), fiber=np.array([r[2] for r in req]), **kw)
    if convention == 'latest':
        return spec1d.readspec(np.array([r[0] for r in req]), fiber=np.array([r[2] for r in req]), **kw)
    if convention == 'scalar_plate':
        if len(req) == 1:
            return spec1d.readspec(req[0][0], mjd=req[0][1], fiber=req[0][2], **kw)
        return spec1d.readspec(req[0][0], mjd=req[0][1], fiber=np.array([r[2] for r in req]), **kw)
    plates = sorted({r[0] for r in req})
    return spec1d.readspec(np.array(plates), **kw)


def ob_spec_append(shape1, shape2):
    def fn(ctx):
        from pydl.pydlspec2d.spec1d import spec_append
        a = [[ctx.real('a%d_%d' % (i, j)) for j in range(shape1[1])] for i in range(shape1[0])]
        b = [[ctx.real('b%d_%d' % (i, j)) for j in range(shape2[1])] for i in range(shape2[0])]
        ps = ctx.int('pixshift', -2, 2)
        d = {'fn': 'spec_append', 'shape1': list(shape1), 'shape2': list(shape2)}
        ctx.detail = d
        out = spec_append(symnp.rarray(a), symnp.rarray(b), pixshift=ps)
        s = int(ps)
        d = dict(d, pixshift=s)
        n1, n2 = (-s if s < 0 else 0), (s if s > 0 else 0)
        width = max(shape1[1] + n1, shape2[1] + n2)
        ctx.require(tuple(out.shape) == (shape1[0] + shape2[0], width), 'spec_append: shape', dict(d, shape=list(out.shape)))
        for i in range(shape1[0] + shape2[0]):
            src, off, row = (a, n1, i) if i < shape1[0] else (b, n2, i - shape1[0])
            for x in range(width):
                j = x - off
                exp = src[row][j] if 0 <= j < len(src[row]) else R(0)
                ctx.require(zt(R.lift(out[i, x])) == zt(exp), 'spec_append: no overlap, loss or move other than the requested shift; padding is zero', dict(d, i=i, x=x))
    return Obligation('spec_append %s+%s' % (shape1, shape2), fn, bounds='every content, pixshift -2..2')


def obligations(tier, seed):
    q = tier == 'quick'
    obs = [ob_readspec(1, 'vector'), ob_readspec(2, 'vector'), ob_readspec(1, 'scalar_plate'), ob_readspec(2, 'scalar_plate'),
           ob_readspec(2, 'latest'), ob_readspec(1, 'all_fibers'), ob_readspec(2, 'all_fibers'), ob_readspec(3, 'latest')]
    if not q:
        obs += [ob_readspec(3, 'vector'), ob_readspec(3, 'scalar_plate'), ob_readspec(4, 'latest')]
    for s1, s2 in [((1, 2), (1, 2)), ((1, 3), (2, 2)), ((2, 2), (1, 3))] + ([] if q else [((2, 3), (2, 3)), ((1, 1), (1, 4)), ((2, 1), (2, 2))]):
        obs.append(ob_spec_append(s1, s2))
    return obs


# ------------------------------------------------------------------ replay
def replay(rec):
    import warnings
    warnings.simplefilter('ignore')
    import pydl.pydlspec2d.spec1d as spec1d
    d = rec['detail'] or {}
    inp = rec['inputs'] or {}
    if d.get('fn') == 'spec_append':
        s1, s2 = d['shape1'], d['shape2']

        def f(v):
            return int(v['num']) / int(v['den']) if isinstance(v, dict) else float(v)
        a = np.array([[f(inp.get('a%d_%d' % (i, j), 1 + i + 10 * j)) for j in range(s1[1])] for i in range(s1[0])])
        b = np.array([[f(inp.get('b%d_%d' % (i, j), 2 + i + 10 * j)) for j in range(s2[1])] for i in range(s2[0])])
        s = int(d.get('pixshift', inp.get('pixshift', 0)))
        out = spec1d.spec_append(a, b, pixshift=s)
        n1, n2 = (-s if s < 0 else 0), (s if s > 0 else 0)
        width = max(s1[1] + n1, s2[1] + n2)
        if tuple(out.shape) != (s1[0] + s2[0], width):
            return True
        exp = np.zeros((s1[0] + s2[0], width))
        exp[0:s1[0], n1:n1 + s1[1]] = a
        exp[s1[0]:, n2:n2 + s2[1]] = b
        return bool((out != exp).any())
    req = [tuple(r) for r in d['req']]

    def value(kind, p, m, k, r, x):
        kk = k if isinstance(k, int) else 9
        return float(p * 1000003 + m * 101 + kk * 17 + r * 5 + x * 3 + {'spPlate': 0.25, 'plug': 0.5, 'photo': 0.75, 'z': 0.125}[kind])

    class W(World):
        def _final(self, a):
            return a.astype(float)
    world = W(value, bool(d['has_photo']), bool(d['has_z']))
    saved = install(world, spec1d)
    try:
        res = _call(spec1d, req, d['convention'], d['n'])
    finally:
        uninstall(spec1d, saved)
    bad = []
    _check_outputs(req, res, world, lambda a, b: float(a) == float(b), lambda label, extra: bad.append(label))
    return bool(bad)
