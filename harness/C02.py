"""C02 - yanny: the meaning of a file does not depend on its surface syntax.

A logical document (pairs, one enum, two structs with scalar / char[] / array / enum columns,
rows of two tables) is rendered with symbolic string contents and symbolic layout choices; the
real yanny parser (raw and record-array mode) must return exactly the document."""
import itertools
import numpy as np
import z3

from pathsym import core, symnp, sstr
from pathsym.core import R, B, Z, zt
from pathsym.sstr import SStr, sym_chars
from .common import Obligation
from .yannylib import S, MemFile, cell_eq, column_values, text_eq

PID = 'C02'

META = {
    'functions_encoded': ['pydl.pydlutils.yanny.yanny.__init__', '_parse', 'get_token', 'trailing_comment', 'type', 'basetype', 'isarray', 'isenum',
                          'array_length', 'char_length', 'dtype', 'convert', 'tables', 'columns', 'size', 'pairs'],
    'stubs': ['re -> pathsym.symre: the same pattern strings interpreted over symbolic strings (validated against re on every run)',
              'numpy structured arrays -> record stand-in (fields hold symbolic strings, numpy S<n> truncation rule)', 'file objects -> in-memory'],
    'assumptions': ['symbolic characters range over TAB and printable ASCII 32..126',
                    'bare strings: no blank, tab, #, ", {, }, no trailing backslash; quoted strings: no "; braced strings: no }; '
                    'trailing comment text: no " and no second # (both documented as unsupported by trailing_comment) and no backslash; braced strings: no # (only quotes protect it); '
                    'header values: no #, no leading/trailing blank, no trailing backslash (continuation mark)',
                    'float tokens are concrete text (float parsing is C code)'],
    'outside_bounds': 'more than 3-4 symbolic characters per document; products of several non-default layout choices; float text',
}

BARE_EXCL = ' \t#"{}\\;'
QUOTED_EXCL = '"'
BRACED_EXCL = '}{"#'
COMMENT_EXCL = '"#\\'


def doc(ctx, opts):
    """-> (text, expected) ; opts selects the layout family and where the symbolic characters go"""
    o = dict(nsym=2, form='bare', ws=' ', nl='\n', arr='[]', comment=None, cont=None, case=None, interleave=0, blank_lines=False,
             charlen='8', sub_names=False, value_sym=0, names=None, typedef_case=False, enumlayout=None, arrpad='', zero_rows=False)
    o.update(opts)

    def choice(name, options):
        """a layout choice made by the solver (concretised on demand): every option is explored"""
        return options[int(ctx.int('choice_' + name, 0, len(options) - 1))] if hasattr(ctx, 'int') else options[ctx.pick(name)]
    if o['nl'] == 'sym':
        o['nl'] = choice('nl', ['\n', '\r\n'])
    if o['ws'] == 'sym':
        o['ws'] = choice('ws', [' ', '\t', ' \t '])
    if o['arr'] == 'sym':
        o['arr'] = choice('arr', ['[]', '<>'])
    if o['arrpad'] == 'sym':
        # blanks or tabs between the braces of an array cell and its first / last element
        o['arrpad'] = choice('arrpad', ['', ' ', '\t', '  '])
    ws, nl, pad = o['ws'], o['nl'], o['arrpad']
    lb, rb = ('[', ']') if o['arr'] == '[]' else ('<', '>')
    excl = {'bare': BARE_EXCL, 'quoted': QUOTED_EXCL, 'braced': BRACED_EXCL}[o['form']]
    L1 = sym_chars(ctx, 'c', o['nsym'], exclude=excl)
    if o['form'] == 'bare' and L1:
        ctx.add(L1[0] != ord('"'))
    if o['form'] == 'braced' and L1:
        # inner padding of a braced token is not part of the value
        ctx.add(z3.And(L1[0] != 32, L1[0] != 9, L1[-1] != 32, L1[-1] != 9))
    l1_text = {'bare': S(L1), 'quoted': S('"', L1, '"'), 'braced': S('{', L1, '}')}[o['form']]
    if o['nsym'] == 0:
        l1_text = '""'
    V = sym_chars(ctx, 'v', o['value_sym'], exclude='#')
    if V:
        ctx.add(z3.And(V[0] != 32, V[0] != 9, V[-1] != 32, V[-1] != 9, V[-1] != 92))
    tname = 'TAB' if not o['sub_names'] else 'AB'
    oname = 'OTHER' if not o['sub_names'] else 'ABC'
    if o['names']:
        tname, oname = o['names']
    trow = tname
    tdef = tname
    if o['typedef_case']:
        # the letter case of the name in the typedef itself is a choice of the solver (concrete variants: the
        # name becomes a dictionary key inside _parse); tables are known by the upper-cased name
        tdef = choice('tdcase', [tname.upper(), tname.lower(), tname.capitalize(), tname[0].lower() + tname[1:].upper()])
    if o['case'] is not None:
        items = []
        for i, ch in enumerate(tname):
            b = z3.Bool('upper%d' % i)
            ctx.inputs['upper%d' % i] = b
            items.append(z3.If(b, z3.IntVal(ord(ch.upper())), z3.IntVal(ord(ch.lower()))))
        trow = SStr.mk(items)
    comment_text = []
    if o['comment'] is not None:
        comment_text = sym_chars(ctx, 'k', o['comment'], exclude=COMMENT_EXCL)
    tc = S(' # ', comment_text) if o['comment'] is not None else ''
    head = ['#%yanny', '# a comment line', S('name', ws, 'value', V, tc), 'mjd 54579', '']
    if o['blank_lines']:
        head += ['', ' \t ', '   # indented comment']
    # the last label is the longest one (it sizes the column); the typedef layout is a choice of the solver
    enum = choice('enumlayout', [['typedef enum {', '    ALPHA,', '    BETA,', '    EPSILON', '} ETYPE;', ''],
                                 ['typedef enum { ALPHA, BETA, EPSILON } ETYPE;', ''],
                                 ['typedef enum {', '    ALPHA, BETA,', '    EPSILON } ETYPE;', ''],
                                 ['typedef enum {ALPHA,BETA,EPSILON} ETYPE;', '']]) if o['enumlayout'] == 'sym' else \
        ['typedef enum {', '    ALPHA,', '    BETA,', '    EPSILON', '} ETYPE;', '']
    st1 = ['typedef struct {', ' int id;', ' char label%s%s%s;' % (lb, o['charlen'], rb), ' ETYPE e;', ' char tags%s2%s%s4%s;' % (lb, rb, lb, rb),
           ' float x%s2%s;' % (lb, rb), S('} ', tdef, ';'), '']
    st2 = ['typedef struct {', ' short n;', ' char w%s%s;' % (lb, rb), '} %s;' % oname, '']
    cont = ''
    if o['cont'] is not None:
        k = sym_chars(ctx, 'b', o['cont'])
        for t in k:
            ctx.add(z3.Or(t == 32, t == 9))
        cont = S('\\', k, nl)
    r1 = S(trow, ws, '1', ws, l1_text, ws, cont, 'ALPHA', ws, '{', pad, 'abc', ws, 'x', pad, '}', ws, '{', pad, '1.5 2.5', pad, '}', tc)
    r2 = S(tname.lower(), ' 2 "q r" EPSILON {"" yyyy} {3.0 4.0}')
    s1 = S(oname, ' 5 ', 'w1')
    s2 = S(oname.lower(), ' 6 longer')
    rows = [[r1, r2, s1, s2], [s1, r1, s2, r2], [r1, s1, r2, s2]][o['interleave']]
    st3 = ['typedef struct {', ' int k;', ' char s%s%s;' % (lb, rb), ' float y%s2%s;' % (lb, rb), '} NOROWS;', ''] if o['zero_rows'] else []
    lines = head + enum + st1 + st2 + st3 + rows
    text = None
    for ln in lines:
        piece = S(ln, nl)
        text = piece if text is None else text + piece
    expected = {
        'pairs': {'name': S('value', V), 'mjd': '54579'},
        tname.upper(): {'id': [1, 2], 'label': [S(L1), 'q r'], 'e': ['ALPHA', 'EPSILON'], 'tags': [['abc', 'x'], ['', 'yyyy']], 'x': [[1.5, 2.5], [3.0, 4.0]]},
        oname.upper(): {'n': [5, 6], 'w': ['w1', 'longer']},
        'order': [tname.upper(), oname.upper()],
    }
    if o['zero_rows']:
        # a table that is declared but has no rows is still a table of the document
        expected['NOROWS'] = {'k': [], 's': [], 'y': []}
        expected['order'].append('NOROWS')
    return text, expected


def check(ctx, par, expected, raw, d):
    tabs = [t for t in par.tables()]
    ctx.require(sorted(tabs) == sorted(expected['order']), 'tables of the document', dict(d, tables=[str(t) for t in tabs]))
    for k, v in expected['pairs'].items():
        ok = k in par.pairs()
        ctx.require(ok, 'keyword pairs of the document', dict(d, key=k))
        if ok:
            ctx.require(text_eq(par[k], v), 'keyword value', dict(d, key=k))
    ctx.require(len(par.pairs()) == len(expected['pairs']), 'no other keyword pairs', dict(d, pairs=[str(p) for p in par.pairs()]))
    for t in expected['order']:
        cols = list(expected[t])
        ctx.require(list(par.columns(t)) == cols, 'column order', dict(d, table=t))
        n = len(expected[t][cols[0]])
        ctx.require(par.size(t) == n, 'row count', dict(d, table=t, size=par.size(t)))
        for c in cols:
            got = column_values(par, t, c)
            ctx.require(len(got) == n, 'row count per column', dict(d, table=t, col=c))
            for i in range(min(n, len(got))):
                ctx.require(cell_eq(got[i], expected[t][c][i]), 'cell value', dict(d, table=t, col=c, row=i))
        if not raw:
            dt = par[t].dtype
            exp_kinds = {'id': 'i4', 'e': 'S7', 'x': 'f4', 'n': 'i2'}
            for c in cols:
                if c in exp_kinds:
                    ctx.require(np.dtype(dt.fields[c][0].base) == np.dtype(exp_kinds[c]), 'column type', dict(d, table=t, col=c))
            if 'w' in cols:
                ctx.require(dt.fields['w'][0].itemsize == 6, 'char[] sizes itself to the longest value', dict(d, table=t))


def ob_layout(name, opts, raw, binary=False):
    def fn(ctx):
        from pydl.pydlutils.yanny import yanny
        text, expected = doc(ctx, opts)
        d = {'fn': 'layout', 'name': name, 'opts': {k: str(v) for k, v in opts.items()}, 'raw': raw, 'binary': binary}
        ctx.detail = d
        par = yanny(MemFile(text, binary), raw=raw)
        check(ctx, par, expected, raw, d)
    return Obligation('layout %s raw=%d binary=%d' % (name, raw, binary), fn, bounds=str(opts), max_paths=300000, max_seconds=1700)


def obligations(tier, seed):
    q = tier == 'quick'
    n = 2 if q else 3
    fam = [
        ('bare', dict(form='bare', nsym=n)),
        ('quoted', dict(form='quoted', nsym=n)),
        ('braced', dict(form='braced', nsym=n)),
        ('empty-quoted', dict(form='quoted', nsym=0)),
        ('comments', dict(form='bare', nsym=1, comment=2, nl='sym')),
        ('quoted+comment', dict(form='quoted', nsym=2, comment=1)),
        ('tabs+blank-lines', dict(form='quoted', nsym=1, ws=' \t ', blank_lines=True)),
        ('crlf', dict(form='bare', nsym=1, nl='\r\n')),
        ('continuation', dict(form='bare', nsym=1, cont=1, nl='sym', ws='sym')),
        ('continuation-quoted', dict(form='quoted', nsym=1, cont=2, nl='sym', arr='sym')),
        ('legacy-angle', dict(form='quoted', nsym=1, arr='<>')),
        ('row-case', dict(form='bare', nsym=1, case=True, nl='sym', arr='sym')),
        ('interleave1', dict(form='bare', nsym=1, interleave=1)),
        ('interleave2', dict(form='quoted', nsym=1, interleave=2)),
        ('header-value', dict(form='bare', nsym=0, value_sym=2)),
        ('char[]', dict(form='quoted', nsym=2, charlen='', arr='sym', ws='sym')),
        ('substring-names', dict(form='bare', nsym=1, sub_names=True)),
        ('substring-names2', dict(form='bare', nsym=1, names=('OBJ', 'OBJ2'))),
        ('substring-names3', dict(form='quoted', nsym=1, names=('XOBJ', 'OBJ'))),
        ('name-is-a-column-elsewhere', dict(form='bare', nsym=1, names=('TAB', 'LABEL'))),
        ('name-is-a-column-elsewhere2', dict(form='quoted', nsym=1, names=('N', 'OTHER'))),
        ('typedef-case', dict(form='bare', nsym=1, typedef_case=True)),
        ('enum-layout', dict(form='bare', nsym=1, enumlayout='sym', nl='sym')),
        ('array-padding', dict(form='bare', nsym=1, arrpad='sym', ws='sym')),
        ('zero-rows', dict(form='quoted', nsym=1, zero_rows=True, arr='sym')),
    ]
    obs = []
    for name, opts in fam:
        obs.append(ob_layout(name, opts, raw=True))
        if name in ('bare', 'quoted', 'legacy-angle', 'char[]', 'array-padding', 'zero-rows', 'interleave1', 'crlf', 'substring-names3', 'name-is-a-column-elsewhere', 'typedef-case', 'enum-layout') or not q:
            obs.append(ob_layout(name, opts, raw=False))
    obs.append(ob_layout('quoted', dict(form='quoted', nsym=1), raw=False, binary=True))
    if not q:
        obs.append(ob_layout('quoted4', dict(form='quoted', nsym=4), raw=True))
        obs.append(ob_layout('comments3', dict(form='quoted', nsym=1, comment=3), raw=True))
        obs.append(ob_layout('combined', dict(form='quoted', nsym=1, comment=1, ws='\t', nl='\r\n', arr='<>', case=True, interleave=1, blank_lines=True), raw=False))
    return obs


# ------------------------------------------------------------------ replay
def replay(rec):
    import io
    from pydl.pydlutils.yanny import yanny
    d = rec['detail'] or {}
    inp = rec['inputs'] or {}
    if d.get('fn') != 'layout':
        return False

    class Ctx(object):
        """concrete stand-in: 'symbolic' characters take their counterexample values"""
        inputs = {}

        def add(self, *a):
            pass
    import harness.C02 as me
    opts = {}
    for k, v in d['opts'].items():
        opts[k] = {'None': None, 'True': True, 'False': False}.get(v, v)
        if k in ('nsym', 'comment', 'cont', 'interleave', 'value_sym') and opts[k] is not None:
            opts[k] = int(v)
        if k == 'names' and opts[k] is not None:
            import ast
            opts[k] = ast.literal_eval(v)
    saved = me.sym_chars

    def conc_chars(ctx, name, n, exclude=''):
        return [chr(int(inp.get('%s_%d' % (name, i), 65))) for i in range(n)]
    me.sym_chars = conc_chars
    real_bool, real_if = z3.Bool, z3.If
    try:
        # case choice: concrete letters
        text, expected = _concrete_doc(opts, inp)
    finally:
        me.sym_chars = saved
    class F(object):
        def __init__(self, t, binary):
            self.t, self.mode = t, ('rb' if binary else 'r')

        def read(self):
            return self.t.encode('latin-1') if 'b' in self.mode else self.t
    par = yanny(F(text, d['binary']), raw=d['raw'])       # an exception here = reproduced only for 'exception:' labels (harness.replay)
    return not _concrete_check(par, expected, d['raw'])


def _concrete_doc(opts, inp):
    import harness.C02 as me

    class Ctx(object):
        inputs = {}

        def add(self, *a):
            pass

        def pick(self, name):
            return int(inp.get('choice_' + name, 0))
    o = dict(opts)
    case = o.pop('case', None)
    tdc = o.pop('typedef_case', False)
    text, expected = me.doc(Ctx(), dict(o, case=None, typedef_case=False))
    text = ''.join(SStr.lift(text).items) if not isinstance(text, str) else text
    tname = 'TAB' if not o.get('sub_names') else 'AB'
    if o.get('names'):
        tname = o['names'][0]
    if tdc:
        new = [tname.upper(), tname.lower(), tname.capitalize(), tname[0].lower() + tname[1:].upper()][int(inp.get('choice_tdcase', 0))]
        text = text.replace('} %s;' % tname, '} %s;' % new, 1)
    if case:
        new = ''.join(ch.upper() if inp.get('upper%d' % i, True) else ch.lower() for i, ch in enumerate(tname))
        # first data row of the first table starts with the table name at the beginning of a line
        import re as _re
        text = _re.sub(r'\n' + tname + r'([ \t]+1[ \t])', lambda m: '\n' + new + m.group(1), text, count=1)

    def plain(v):
        if isinstance(v, list):
            return [plain(e) for e in v]
        if isinstance(v, SStr):
            return ''.join(v.items)
        return v
    expected = {k: ({kk: plain(vv) for kk, vv in v.items()} if isinstance(v, dict) else v) for k, v in expected.items()}
    return text, expected


def _concrete_check(par, expected, raw):
    if sorted(par.tables()) != sorted(expected['order']):
        return False
    if sorted(par.pairs()) != sorted(expected['pairs']):
        return False
    for k, v in expected['pairs'].items():
        if par[k] != v:
            return False
    for t in expected['order']:
        cols = list(expected[t])
        if list(par.columns(t)) != cols:
            return False
        n = len(expected[t][cols[0]])
        if par.size(t) != n:
            return False
        for c in cols:
            got = par[t][c]
            for i in range(n):
                g, e = got[i], expected[t][c][i]

                def norm(x):
                    if isinstance(x, (bytes, np.bytes_)):
                        return bytes(x).decode('latin-1')
                    if isinstance(x, (list, tuple, np.ndarray)):
                        return [norm(y) for y in x]
                    if isinstance(x, (np.floating, np.integer)):
                        return float(x)
                    if isinstance(x, (int, float)):
                        return float(x)
                    return x
                if norm(g) != norm(e):
                    return False
        if not raw and 'w' in cols and par[t].dtype.fields['w'][0].itemsize != 6:
            return False
    return True


def validate(seed, tier):
    """translation validation of the regex interpreter: symre vs re on every pattern of the code"""
    from . import symre_validation
    return symre_validation.run(seed, 60 if tier == 'quick' else 200)
