"""C19 - wavelength, photometric-system and band-flux conversions are self-consistent (partial)."""
from fractions import Fraction
import numpy as np
import z3

from pathsym import core, symnp
from pathsym.core import R, B, zt
from .common import Obligation

PID = 'C19'

META = {
    'functions_encoded': ['pydl.goddard.astro.airtovac', 'pydl.goddard.astro.vactoair', 'pydl.photoop.sdssio.sdssflux2ab',
                          'pydl.pydlspec2d.spec2d.filter_thru', 'pydl.pydlutils.trace.xy2traceset/traceset2xy/TraceSet/func_fit',
                          'pydl.pydlutils.image.djs_maskinterp'],
    'stubs': ['numpy.linalg.solve -> exact rational solve; numpy.interp / log10 / power on concrete data run in IEEE double (mixed mode)',
              'astropy.io.ascii.read of the packaged filter curves: real'],
    'assumptions': ['wavelengths are exact reals; the 1e-6 Angstrom round-trip margin leaves five orders of magnitude for IEEE rounding '
                    '(about 3e-11 Angstrom at 30 micron) - an argument, not a solver result',
                    'array form: an element below 2000 A that hits a pole of the Ciddor factor (0, ~648.2, ~1320.3 A) is a cut path '
                    '(numpy computes inf there and then overwrites it)'],
    'outside_bounds': 'astropy Quantity input (units machinery cannot carry symbolic values); filter sets other than sdss_jun2001; toair=True',
}


def ob_air_scalar(which):
    def fn(ctx):
        from pydl.goddard.astro import airtovac, vactoair
        a = ctx.real('w')
        d = {'fn': 'air_scalar', 'which': which}
        ctx.detail = d
        ctx.add(z3.And(zt(a) >= 100, zt(a) <= 300000))
        if which == 'a2v':
            v = airtovac(a)
            if bool(a < 2000):
                ctx.require(zt(R.lift(v)) == zt(a), 'airtovac: wavelengths below 2000 A unchanged', d)
                return
            ctx.require(zt(R.lift(v)) > zt(a), 'airtovac: vacuum > air above 2000 A', d)
            back = vactoair(v)
            df = zt(R.lift(back)) - zt(a)
            ctx.require(z3.And(df < z3.RealVal('1e-6'), -df < z3.RealVal('1e-6')), 'vactoair(airtovac(a)) = a to 1e-6 A', d)
        else:
            air = vactoair(a)
            if bool(a < 2000):
                ctx.require(zt(R.lift(air)) == zt(a), 'vactoair: wavelengths below 2000 A unchanged', d)
                return
            ctx.require(zt(R.lift(air)) < zt(a), 'vactoair: air < vacuum above 2000 A', d)
            if bool(R.lift(air) >= 2000):
                back = airtovac(air)
                df = zt(R.lift(back)) - zt(a)
                ctx.require(z3.And(df < z3.RealVal('1e-6'), -df < z3.RealVal('1e-6')), 'airtovac(vactoair(v)) = v to 1e-6 A wherever vactoair(v) >= 2000', d)
    return Obligation('air/vacuum scalar %s' % which, fn, bounds='every wavelength in [100 A, 30 micron]', solver_timeout_ms=600000, max_seconds=1700, purify_div=False, incremental_ms=2000, fresh_strategy='rlimit-first')


def ob_air_array(which, n):
    def fn(ctx):
        from pydl.goddard.astro import airtovac, vactoair
        f = airtovac if which == 'a2v' else vactoair
        ws = ctx.reals('w', n)
        for w in ws:
            # below 2000 A numpy still evaluates the Ciddor factor (and discards it): stay clear of its
            # poles near 648 A and 1320 A, where that discarded intermediate is inf
            ctx.add(z3.And(zt(w) >= 1400, zt(w) <= 300000))
        d = {'fn': 'air_array', 'which': which, 'n': n}
        ctx.detail = d
        arr = symnp.rarray(ws)
        keep = [zt(w) for w in ws]
        out = f(arr)
        ctx.require(out.shape == (n,), 'array form: shape', d)
        for i in range(n):
            ref = f(ws[i])
            ctx.require(zt(R.lift(out[i])) == zt(R.lift(ref)), 'array form agrees with the scalar form element by element', dict(d, i=i))
            ctx.require(zt(arr[i]) == keep[i], 'array form does not modify its input', dict(d, i=i))
    return Obligation('air/vacuum array %s n=%d' % (which, n), fn, bounds='%d wavelengths in [1400 A, 30 micron], any mixture below/above 2000 A' % n,
                      solver_timeout_ms=300000, purify_div=False, incremental_ms=2000, fresh_strategy='rlimit-first')


def ob_air_0d(which):
    """a wavelength that is a NumPy scalar or a 0-d array (what indexing an array gives) is a float too"""
    def fn(ctx):
        from pydl.goddard.astro import airtovac, vactoair
        f = airtovac if which == 'a2v' else vactoair
        w = ctx.real('w')
        ctx.add(z3.And(zt(w) >= 1400, zt(w) <= 300000))
        d = {'fn': 'air_0d', 'which': which}
        ctx.detail = d
        arr = np.empty((), dtype=object)
        arr[()] = w
        out = f(arr)
        ref = f(w)
        got = out[()] if isinstance(out, np.ndarray) else out
        ctx.require(zt(R.lift(got)) == zt(R.lift(ref)), '0-d array / NumPy scalar form agrees with the float form', d)
    return Obligation('air/vacuum 0-d %s' % which, fn, bounds='one wavelength in [1400 A, 30 micron] held in a 0-d array',
                      solver_timeout_ms=300000, purify_div=False, incremental_ms=2000, fresh_strategy='rlimit-first')


def ob_air_intarray(which, n):
    """integer-typed wavelength arrays (a spectrum's integer Angstrom grid) must give the float answer too"""
    def fn(ctx):
        from pydl.goddard.astro import airtovac, vactoair
        from pathsym.core import Z
        f = airtovac if which == 'a2v' else vactoair
        ws = [ctx.int('w%d' % i) for i in range(n)]
        for w in ws:
            ctx.add(z3.And(w.v >= 1400, w.v <= 300000))
        d = {'fn': 'air_intarray', 'which': which, 'n': n}
        ctx.detail = d
        ctx.ints_as_Z = True
        arr = symnp._build_object([Z(w.v) for w in ws])
        out = f(arr)
        ctx.require(out.shape == (n,), 'integer array form: shape', d)
        for i in range(n):
            ref = f(R(z3.ToReal(ws[i].v)))
            ctx.require(zt(R.lift(out[i])) == zt(R.lift(ref)), 'integer array form agrees with the float scalar form element by element', dict(d, i=i))
    return Obligation('air/vacuum integer array %s n=%d' % (which, n), fn, bounds='%d integer wavelengths in [1400 A, 30 micron]' % n,
                      solver_timeout_ms=300000, purify_div=False, incremental_ms=2000, fresh_strategy='rlimit-first')


CORR = [-0.042, 0.036, 0.015, 0.013, -0.002]


def ob_flux2ab(rows):
    def fn(ctx):
        from pydl.photoop.sdssio import sdssflux2ab
        fl = [[ctx.real('f%d_%d' % (r, b)) for b in range(5)] for r in range(rows)]
        d = {'fn': 'flux2ab', 'rows': rows}
        ctx.detail = d
        arr = symnp.rarray(fl)
        keep = [[zt(v) for v in row] for row in fl]
        ab = sdssflux2ab(arr)
        iv = sdssflux2ab(arr, ivar=True)
        mg = sdssflux2ab(arr, magnitude=True)
        ab2 = sdssflux2ab(arr)          # the same call again, after the other forms have run in this process
        iv2 = sdssflux2ab(arr, ivar=True)
        for r in range(rows):
            for b in range(5):
                ctx.require(z3.And(zt(R.lift(ab2[r, b])) == zt(R.lift(ab[r, b])), zt(R.lift(iv2[r, b])) == zt(R.lift(iv[r, b]))),
                            'sdssflux2ab: a repeated call gives the same answer (no state carried between calls)', dict(d, r=r, b=b))
                k = 10.0 ** (-CORR[b] / 2.5)
                kk = z3.RealVal(str(Fraction(k)))
                x = zt(fl[r][b])
                ax = z3.If(x >= 0, x, -x)
                df = zt(R.lift(ab[r, b])) - kk * x
                ctx.require(z3.And(df <= ax * z3.RealVal('1e-12'), -df <= ax * z3.RealVal('1e-12')),
                            'sdssflux2ab: flux scaled by 10^(-c_band/2.5)', dict(d, r=r, b=b))
                df = zt(R.lift(iv[r, b])) * kk * kk - x
                ctx.require(z3.And(df <= ax * z3.RealVal('1e-12'), -df <= ax * z3.RealVal('1e-12')),
                            'sdssflux2ab: inverse variance scaled by the inverse square of the flux factor', dict(d, r=r, b=b))
                df = zt(R.lift(mg[r, b])) - (x + z3.RealVal(str(Fraction(CORR[b]))))
                ctx.require(z3.And(df <= z3.RealVal('1e-12'), -df <= z3.RealVal('1e-12')),
                            'sdssflux2ab: magnitude offset c_band', dict(d, r=r, b=b))
                ctx.require(zt(arr[r, b]) == keep[r][b], 'sdssflux2ab: input not modified', dict(d, r=r, b=b))
    return Obligation('sdssflux2ab rows=%d' % rows, fn, bounds='%d rows x 5 bands, every value' % rows, mode='mixed')


def _waveimg(ntrace, nx, lo, hi):
    # log-linear wavelength solution, slightly different per trace
    return np.array([10 ** np.linspace(np.log10(lo * (1 + 0.01 * t)), np.log10(hi * (1 + 0.01 * t)), nx) for t in range(ntrace)])


def ob_filter_thru(ntrace, nx, lo, hi, maskpat, use_wset=False):
    def fn(ctx):
        from pydl.pydlspec2d.spec2d import filter_thru
        fl = [[ctx.real('f%d_%d' % (t, j)) for j in range(nx)] for t in range(ntrace)]
        d = {'fn': 'filter_thru', 'ntrace': ntrace, 'nx': nx, 'lo': lo, 'hi': hi, 'maskpat': maskpat}
        ctx.detail = d
        wimg = _waveimg(ntrace, nx, lo, hi)
        mask = None
        if maskpat:
            mask = np.array([[(maskpat >> j) & 1 for j in range(nx)] for t in range(ntrace)], dtype=bool)
        res = filter_thru(symnp.rarray(fl), waveimg=wimg, mask=mask)
        ctx.require(res.shape == (ntrace, 5), 'filter_thru: one value per trace and band', d)
        flat = [v for row in fl for v in row]
        fa = {str(v.z3()): z3.Real('A_' + str(v.z3())) for v in flat}
        fb = {str(v.z3()): z3.Real('B_' + str(v.z3())) for v in flat}
        s = z3.Real('s')
        c = z3.Real('c')
        lo_b, hi_b = z3.Real('lo_b'), z3.Real('hi_b')
        for t in range(ntrace):
            used = [fl[t][j] for j in range(nx) if not (maskpat >> j) & 1]
            for b in range(5):
                term = zt(R.lift(res[t, b]))
                dd = dict(d, t=t, b=b)
                ta = z3.substitute(term, *[(zt(v), fa[str(v.z3())]) for v in flat])
                tb = z3.substitute(term, *[(zt(v), fb[str(v.z3())]) for v in flat])
                tab = z3.substitute(term, *[(zt(v), s * fa[str(v.z3())] + fb[str(v.z3())]) for v in flat])
                ctx.require(tab == s * ta + tb, 'filter_thru: linear in the flux', dd)
                tc = z3.substitute(term, *[(zt(v), c) for v in flat])
                ac = z3.If(c >= 0, c, -c) * z3.RealVal('1e-9')
                ctx.require(z3.Or(z3.And(tc - c <= ac, c - tc <= ac), tc == 0), 'filter_thru: a constant spectrum c gives c in every band the wavelengths overlap (0 where they do not)', dd)
                nonzero = not z3.is_true(z3.simplify(z3.substitute(term, *[(zt(v), z3.RealVal(1)) for v in flat]) == 0))
                if nonzero:
                    bounds = z3.And([z3.And(zt(v) >= lo_b, zt(v) <= hi_b) for v in used])
                    slack = (z3.If(lo_b >= 0, lo_b, -lo_b) + z3.If(hi_b >= 0, hi_b, -hi_b)) * z3.RealVal('1e-9')
                    ctx.require(z3.Implies(bounds, z3.And(term >= lo_b - slack, term <= hi_b + slack)), 'filter_thru: within the minimum and maximum of the flux', dd)
                for j in range(nx):
                    if (maskpat >> j) & 1:
                        ctx.require(term == z3.substitute(term, (zt(fl[t][j]), z3.Real('fresh'))), 'filter_thru: independent of the values of masked pixels', dict(dd, j=j))
                # traces do not mix
                for t2 in range(ntrace):
                    if t2 != t:
                        ctx.require(term == z3.substitute(term, *[(zt(v), z3.Real('o_%d' % k)) for k, v in enumerate(fl[t2])]),
                                    'filter_thru: a trace depends only on its own row', dd)
    return Obligation('filter_thru %dx%d %g-%g mask=%s' % (ntrace, nx, lo, hi, bin(maskpat)), fn,
                      bounds='%d traces x %d pixels, every flux image' % (ntrace, nx), mode='mixed', solver_timeout_ms=300000, max_seconds=1700)


def ob_filter_thru_int(nx, lo, hi):
    """an integer-typed flux image (raw counts) must give the weighted mean of its values, as the float image does"""
    def fn(ctx):
        from pydl.pydlspec2d.spec2d import filter_thru
        from pathsym.core import Z
        fi = [ctx.int('f%d' % j) for j in range(nx)]
        for v in fi:
            ctx.add(z3.And(v.v >= -100000, v.v <= 100000))
        d = {'fn': 'filter_thru_int', 'nx': nx, 'lo': lo, 'hi': hi}
        ctx.detail = d
        ctx.ints_as_Z = True
        wimg = _waveimg(1, nx, lo, hi)
        res = filter_thru(symnp._build_object([[Z(v.v) for v in fi]]), waveimg=wimg)
        ref = filter_thru(symnp.rarray([[R(z3.ToReal(v.v)) for v in fi]]), waveimg=wimg)
        for b in range(5):
            ctx.require(zt(R.lift(res[0, b])) == zt(R.lift(ref[0, b])), 'filter_thru: an integer flux image gives the same band fluxes as the float image', dict(d, b=b))
    return Obligation('filter_thru integer flux 1x%d %g-%g' % (nx, lo, hi), fn, bounds='1 trace x %d pixels, every integer flux in [-1e5, 1e5]' % nx,
                      mode='mixed', solver_timeout_ms=300000)


def obligations(tier, seed):
    q = tier == 'quick'
    obs = [ob_air_scalar('a2v'), ob_air_scalar('v2a')]
    for which in ('a2v', 'v2a'):
        obs.append(ob_air_intarray(which, 1))
        obs.append(ob_air_0d(which))
        obs.append(ob_air_array(which, 2))
        if not q:
            obs.append(ob_air_array(which, 3))
    obs.append(ob_flux2ab(1))
    obs.append(ob_flux2ab(2))
    obs.append(ob_filter_thru(1, 6, 3800.0, 9200.0, 0))
    obs.append(ob_filter_thru(2, 6, 4000.0, 8000.0, 0b000100))
    obs.append(ob_filter_thru(1, 6, 9200.0, 3800.0, 0))          # wavelengths decreasing with pixel index
    # ob_filter_thru_int (integer-typed flux images) is not registered: the integer dtype reaches the trace-set fit of the
    # pixel widths as bit-vector abscissae, which the engine does not mix with real arithmetic (inconclusive, DESIGN 9.10)
    if not q:
        obs.append(ob_filter_thru(2, 6, 8000.0, 4000.0, 0b010000))
        obs.append(ob_filter_thru(2, 8, 3500.0, 10500.0, 0b00100100))
        obs.append(ob_filter_thru(1, 7, 5000.0, 7000.0, 0b0000011))
        obs.append(ob_filter_thru(1, 6, 12000.0, 15000.0, 0))
    return obs


# ------------------------------------------------------------------ replay
def _f(v):
    if isinstance(v, dict):
        return int(v['num']) / int(v['den'])
    return float(v)


def replay(rec):
    import warnings
    warnings.simplefilter('ignore')
    d = rec['detail'] or {}
    inp = rec['inputs'] or {}
    fn = d.get('fn')
    if fn == 'air_scalar':
        from pydl.goddard.astro import airtovac, vactoair
        w = _f(inp.get('w', 0))
        if d['which'] == 'a2v':
            v = airtovac(w)
            if w < 2000:
                return v != w
            return not (v > w and abs(vactoair(v) - w) < 1e-6)
        a = vactoair(w)
        if w < 2000:
            return a != w
        if not a < w:
            return True
        return a >= 2000 and not abs(airtovac(a) - w) < 1e-6
    if fn == 'air_array':
        from pydl.goddard.astro import airtovac, vactoair
        f = airtovac if d['which'] == 'a2v' else vactoair
        ws = np.array([_f(inp.get('w%d' % i, 0)) for i in range(d['n'])])
        keep = ws.copy()
        out = f(ws)
        if (ws != keep).any():
            return True
        return any(abs(out[i] - f(float(keep[i]))) > 1e-9 * max(1.0, abs(keep[i])) for i in range(d['n']))
    if fn == 'filter_thru_int':
        from pydl.pydlspec2d.spec2d import filter_thru
        fi = np.array([[int(inp.get('f%d' % j, 3)) for j in range(d['nx'])]], dtype='i8')
        wimg = _waveimg(1, d['nx'], d['lo'], d['hi'])
        a, b = filter_thru(fi, waveimg=wimg), filter_thru(fi.astype('d'), waveimg=wimg)
        return bool(np.abs(np.asarray(a, dtype='d') - b).max() > 1e-9 * max(1.0, np.abs(b).max()))
    if fn == 'air_0d':
        from pydl.goddard.astro import airtovac, vactoair
        f = airtovac if d['which'] == 'a2v' else vactoair
        w = _f(inp.get('w', 5000.0))
        bad = False
        for form in (np.array(w), np.float64(w)):          # an exception = reproduced for 'exception:' labels
            bad = bad or abs(float(f(form)) - f(w)) > 1e-9 * max(1.0, abs(w))
        return bool(bad)
    if fn == 'air_intarray':
        from pydl.goddard.astro import airtovac, vactoair
        f = airtovac if d['which'] == 'a2v' else vactoair
        ws = np.array([int(inp.get('w%d' % i, 3000)) for i in range(d['n'])], dtype='i8')
        out = f(ws)
        return any(abs(float(out[i]) - f(float(ws[i]))) > 1e-9 * max(1.0, abs(float(ws[i]))) for i in range(d['n']))
    if fn == 'flux2ab':
        from pydl.photoop.sdssio import sdssflux2ab
        rows = d['rows']
        fl = np.array([[_f(inp.get('f%d_%d' % (r, b), 0)) for b in range(5)] for r in range(rows)])
        keep = fl.copy()
        ab, iv, mg = sdssflux2ab(fl), sdssflux2ab(fl, ivar=True), sdssflux2ab(fl, magnitude=True)
        if (fl != keep).any():
            return True
        if (sdssflux2ab(fl) != ab).any() or (sdssflux2ab(fl, ivar=True) != iv).any():
            return True
        k = 10.0 ** (-np.array(CORR) / 2.5)
        tol = 1e-11 * np.maximum(1.0, np.abs(fl))
        return bool((np.abs(ab - fl * k) > tol).any() or (np.abs(iv * k * k - fl) > tol).any() or (np.abs(mg - (fl + np.array(CORR))) > 1e-11).any())
    if fn == 'filter_thru':
        from pydl.pydlspec2d.spec2d import filter_thru
        ntrace, nx, maskpat = d['ntrace'], d['nx'], d['maskpat']
        fl = np.array([[_f(inp.get('f%d_%d' % (t, j), 0)) for j in range(nx)] for t in range(ntrace)])
        for nm in ('A_', 'B_'):
            pass
        wimg = _waveimg(ntrace, nx, d['lo'], d['hi'])
        mask = np.array([[(maskpat >> j) & 1 for j in range(nx)] for t in range(ntrace)], dtype=bool) if maskpat else None
        res = filter_thru(fl.copy(), waveimg=wimg, mask=mask)
        one = filter_thru(np.ones_like(fl), waveimg=wimg, mask=mask)
        label = rec['label']
        tol = 1e-9 * max(1.0, np.abs(fl).max())
        if 'constant' in label:
            cval = _f(inp.get('c', 1.0)) if 'c' in inp else 3.0
            r2 = filter_thru(np.full_like(fl, cval), waveimg=wimg, mask=mask)
            return bool((np.minimum(np.abs(r2 - cval), np.abs(r2)) > 1e-9 * max(1.0, abs(cval))).any())
        if 'linear' in label:
            rng = np.random.default_rng(0)
            fa, fb = rng.normal(size=fl.shape), rng.normal(size=fl.shape)
            return bool(np.abs(filter_thru(2.5 * fa + fb, waveimg=wimg, mask=mask) - (2.5 * filter_thru(fa, waveimg=wimg, mask=mask) + filter_thru(fb, waveimg=wimg, mask=mask))).max() > 1e-9)
        if 'masked' in label:
            f2 = fl.copy()
            f2[mask] += 17.0
            return bool(np.abs(filter_thru(f2, waveimg=wimg, mask=mask) - res).max() > tol)
        if 'within' in label:
            good = ~mask if mask is not None else np.ones_like(fl, dtype=bool)
            for t in range(ntrace):
                for b in range(5):
                    if abs(one[t, b]) > 1e-12:
                        lo, hi = fl[t][good[t]].min(), fl[t][good[t]].max()
                        if res[t, b] < lo - tol or res[t, b] > hi + tol:
                            return True
            return False
        if 'own row' in label:
            f2 = fl.copy()
            f2[1:] += 5.0
            return bool(abs(filter_thru(f2, waveimg=wimg, mask=mask)[0] - res[0]).max() > tol)
        return False
    return False
