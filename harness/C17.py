"""C17 - rejection, mask interpolation and sky masking act on exactly the intended pixels."""
import itertools
from fractions import Fraction
import numpy as np
import z3

from pathsym import core, symnp
from pathsym.core import R, B, BV, zt, ite
from .common import Obligation

PID = 'C17'

META = {
    'functions_encoded': ['pydl.pydlutils.math.djs_reject', 'pydl.pydlutils.math.djs_median', 'pydl.pydlutils.image.djs_maskinterp1',
                          'pydl.pydlutils.image.djs_maskinterp', 'pydl.pydlspec2d.spec2d.aesthetics', 'pydl.pydlspec2d.spec1d.skymask',
                          'pydl.smooth.smooth', 'pydl.median.median', 'pydl.pydlutils.sdss.sdss_flagval'],
    'stubs': ['numpy.interp -> its documented definition on symbolic elements', 'scipy.signal.medfilt/medfilt2d -> order-statistic relation',
              'maskbits cache preset to the SPPIXMASK bits (BADSKYCHI 23, REDMONSTER 28, NOPLUG 0, NODATA 24, COMBINEREJ 25)'],
    'assumptions': ['floats are exact reals', 'sigma >= 0, lower/upper/maxdev >= 0', 'x values of djs_maskinterp are distinct',
                    'axis of djs_maskinterp counts IDL-style (0 = fastest-varying = last numpy axis), as the code and its tests do'],
    'outside_bounds': 'djs_reject without sigma/invvar (needs a standard deviation), maxrej/groupsize/groupdim/groupbadpix; aesthetics method '
                      '"damp" (erf); arrays beyond the stated sizes',
}

SPPIXMASK = {'NOPLUG': 0, 'BADSKYCHI': 23, 'NODATA': 24, 'COMBINEREJ': 25, 'REDMONSTER': 28}


# ------------------------------------------------------------------ djs_reject
def ob_reject(n, mode, use_lower, use_upper, use_maxdev, sticky, grow, use_inmask=True, maskpat=None):
    def fn(ctx):
        from pydl.pydlutils.math import djs_reject
        data = ctx.reals('data', n)
        model = ctx.reals('model', n)
        d = {'fn': 'reject', 'n': n, 'mode': mode, 'lower': use_lower, 'upper': use_upper, 'maxdev': use_maxdev,
             'sticky': sticky, 'grow': grow, 'inmask': use_inmask}
        ctx.detail = d
        kw = {}
        if mode == 'sigma_scalar':
            sig = ctx.real('sigma')
            ctx.add(zt(sig) >= 0)
            kw['sigma'] = sig
            unit = [sig] * n
        elif mode == 'sigma_array':
            sg = ctx.reals('sigma', n)
            for s_ in sg:
                ctx.add(zt(s_) >= 0)
            kw['sigma'] = symnp.rarray(sg)
            unit = sg
        else:   # invvar = s^2 with symbolic s >= 0 ; unit = 1/s
            sq = ctx.reals('s', n)
            for s_ in sq:
                ctx.add(zt(s_) >= 0)
            kw['invvar'] = symnp._build_object([s_ * s_ for s_ in sq])
            unit = None
        lower = ctx.real('lower') if use_lower else None
        upper = ctx.real('upper') if use_upper else None
        maxdev = ctx.real('maxdev') if use_maxdev else None
        for v in (lower, upper):
            if v is not None:
                ctx.add(zt(v) >= 0)
        if maxdev is not None:
            ctx.add(zt(maxdev) > 0)
        if maskpat is None:
            inm = [bool(ctx.bool('inmask%d' % i)) for i in range(n)] if use_inmask else [True] * n
            outm = [bool(ctx.bool('outmask%d' % i)) for i in range(n)]
        else:
            # fixed mask patterns (concrete enumeration), contents still symbolic
            inm = [bool(ctx.bool('inmask%d' % i)) if False else bool((maskpat[0] >> i) & 1) for i in range(n)] if use_inmask else [True] * n
            outm = [bool((maskpat[1] >> i) & 1) for i in range(n)]
            for i in range(n):
                if use_inmask:
                    ctx.add(ctx.bool('inmask%d' % i).z3() == z3.BoolVal(inm[i]))
                ctx.add(ctx.bool('outmask%d' % i).z3() == z3.BoolVal(outm[i]))
        if use_inmask:
            kw['inmask'] = np.array(inm, dtype=bool)
        newmask, qdone = djs_reject(symnp.rarray(data), symnp.rarray(model), outmask=np.array(outm, dtype=bool),
                                    lower=lower, upper=upper, maxdev=maxdev, sticky=sticky, grow=grow, **kw)
        newmask = [bool(v) for v in np.asarray(newmask).tolist()]
        # oracle
        bad = []
        for i in range(n):
            diff = data[i] - model[i]
            conds = []
            if mode == 'invvar':
                if lower is not None:
                    conds.append(zt(diff * sq[i]) < -zt(lower))
                if upper is not None:
                    conds.append(zt(diff * sq[i]) > zt(upper))
            else:
                if lower is not None:
                    conds.append(zt(diff) < -zt(lower * unit[i]))
                if upper is not None:
                    conds.append(zt(diff) > zt(upper * unit[i]))
            if maxdev is not None:
                conds.append(z3.Or(zt(diff) > zt(maxdev), -zt(diff) > zt(maxdev)))
            bad.append(z3.Or(conds) if conds else z3.BoolVal(False))
        considered = [inm[i] and (outm[i] if sticky else True) for i in range(n)]
        badc = [z3.And(z3.BoolVal(considered[i]), bad[i]) for i in range(n)]
        for i in range(n):
            near = z3.Or([badc[j] for j in range(n) if abs(i - j) <= grow]) if grow > 0 else badc[i]
            rejected = z3.Or(z3.BoolVal(not considered[i]), near)
            ctx.require(rejected == z3.BoolVal(not newmask[i]),
                        'djs_reject: rejected = excluded by the masks, or beyond a limit, or within `grow` of such a point', dict(d, i=i, newmask=newmask))
        ctx.require(bool(qdone) == (newmask == outm), 'djs_reject: completion reported exactly when the mask did not change', dict(d, newmask=newmask, outmask=outm))
    name = 'reject n=%d %s lo=%d up=%d md=%d sticky=%d grow=%d inmask=%d pat=%s' % (n, mode, use_lower, use_upper, use_maxdev, sticky, grow, use_inmask, maskpat)
    return Obligation(name, fn, bounds='n=%d, every data/model/sigma/limit/mask' % n, max_paths=300000, max_seconds=1700, solver_timeout_ms=120000)


def ob_reject_2d(r, c):
    def fn(ctx):
        from pydl.pydlutils.math import djs_reject
        data = [[ctx.real('d%d_%d' % (i, j)) for j in range(c)] for i in range(r)]
        sig = ctx.real('sigma')
        ctx.add(zt(sig) >= 0)
        up = ctx.real('upper')
        ctx.add(zt(up) >= 0)
        d = {'fn': 'reject2d', 'r': r, 'c': c}
        ctx.detail = d
        model = symnp.zeros((r, c))
        newmask, qdone = djs_reject(symnp.rarray(data), model, sigma=sig, upper=up)
        for i in range(r):
            for j in range(c):
                ctx.require((zt(data[i][j]) > zt(up * sig)) == z3.BoolVal(not bool(newmask[i, j])), 'djs_reject 2-D: elementwise limit', dict(d, i=i, j=j))
    return Obligation('reject 2-D %dx%d' % (r, c), fn, bounds='%dx%d' % (r, c))


# ------------------------------------------------------------------ djs_maskinterp
def interp_oracle(ys, good, pos=None):
    """linear interpolation between nearest good neighbours in `pos` order (index order if None); ends held constant."""
    n = len(ys)
    pos = list(range(n)) if pos is None else pos
    out = list(ys)
    gi = [i for i in range(n) if good[i]]
    if len(gi) == 0 or len(gi) == n:
        return out
    if len(gi) == 1:
        return [ys[gi[0]]] * n
    for i in range(n):
        if good[i]:
            continue
        left = [g for g in gi if bool(pos[g] < pos[i])]
        right = [g for g in gi if bool(pos[g] > pos[i])]
        if not left:
            g = right[0]
            for h in right:
                if bool(pos[h] < pos[g]):
                    g = h
            out[i] = ys[g]
        elif not right:
            g = left[0]
            for h in left:
                if bool(pos[h] > pos[g]):
                    g = h
            out[i] = ys[g]
        else:
            a = left[0]
            for h in left:
                if bool(pos[h] > pos[a]):
                    a = h
            b = right[0]
            for h in right:
                if bool(pos[h] < pos[b]):
                    b = h
            t = (R.lift(pos[i]) - pos[a]) / (R.lift(pos[b]) - pos[a])
            out[i] = ys[a] + (ys[b] - ys[a]) * t
    return out


def ob_maskinterp1(n, use_x, const):
    def fn(ctx):
        from pydl.pydlutils.image import djs_maskinterp
        ys = ctx.reals('y', n)
        masked = [bool(ctx.bool('m%d' % i)) for i in range(n)]
        d = {'fn': 'maskinterp1', 'n': n, 'use_x': use_x, 'const': const, 'masked': masked}
        ctx.detail = d
        kw = {}
        pos = None
        if use_x:
            xs = ctx.reals('x', n)
            ctx.add(z3.Distinct([zt(x) for x in xs]))
            kw['xval'] = symnp.rarray(xs)
            pos = xs
        keep = [zt(y) for y in ys]
        yarr = symnp.rarray(ys)
        out = djs_maskinterp(yarr, np.array(masked, dtype=bool), const=const, **kw)
        exp = interp_oracle(ys, [not m for m in masked], pos)
        for i in range(n):
            what = 'unmasked sample unchanged' if not masked[i] else 'masked sample = linear interpolation between nearest good neighbours (ends constant)'
            ctx.require(zt(R.lift(out[i])) == zt(R.lift(exp[i])), 'djs_maskinterp: ' + what, dict(d, i=i))
        for i in range(n):
            ctx.require(zt(yarr[i]) == keep[i], 'djs_maskinterp: input not modified', dict(d, i=i))
    return Obligation('maskinterp 1-D n=%d x=%d const=%d' % (n, use_x, const), fn, bounds='n=%d, every y, mask%s' % (n, ' and x' if use_x else ''),
                      max_paths=100000)


def ob_maskinterp_nd(shape, axis, use_x):
    def fn(ctx):
        from pydl.pydlutils.image import djs_maskinterp
        ys = np.empty(shape, dtype=object)
        ms = np.empty(shape, dtype=bool)
        for idx in np.ndindex(*shape):
            ys[idx] = ctx.real('y' + '_'.join(map(str, idx)))
        # mask pattern: symbolic along the interpolation axis of the first line, fixed pseudo-pattern elsewhere
        nd = len(shape)
        np_axis = nd - 1 - axis          # IDL-style axis numbering
        for idx in np.ndindex(*shape):
            ms[idx] = bool(ctx.bool('m' + '_'.join(map(str, idx))))
        d = {'fn': 'maskinterp_nd', 'shape': list(shape), 'axis': axis, 'use_x': use_x, 'mask': ms.astype(int).tolist()}
        ctx.detail = d
        kw = {}
        xs = None
        if use_x:
            xs = np.empty(shape, dtype=object)
            for idx in np.ndindex(*shape):
                # x increasing along the interpolation axis with a symbolic step per line
                xs[idx] = R(idx[np_axis]) * 2 + R(sum(idx)) / 10
            kw['xval'] = xs
        out = djs_maskinterp(ys.copy(), ms, axis=axis, **kw)
        ctx.require(tuple(out.shape) == tuple(shape), 'djs_maskinterp n-D: shape', d)
        moved_y = np.moveaxis(ys, np_axis, -1)
        moved_m = np.moveaxis(ms, np_axis, -1)
        moved_o = np.moveaxis(out, np_axis, -1)
        moved_x = np.moveaxis(xs, np_axis, -1) if use_x else None
        for line in np.ndindex(*moved_y.shape[:-1]):
            yl = list(moved_y[line])
            gl = [not bool(v) for v in moved_m[line]]
            exp = interp_oracle(yl, gl, list(moved_x[line]) if use_x else None)
            for k in range(len(yl)):
                ctx.require(zt(R.lift(moved_o[line][k])) == zt(R.lift(exp[k])),
                            'djs_maskinterp n-D: each line along the chosen axis is interpolated independently', dict(d, line=list(line), k=k))
    return Obligation('maskinterp %s axis=%d x=%d' % ('x'.join(map(str, shape)), axis, use_x), fn,
                      bounds='shape %s, every y and mask' % (shape,), max_paths=200000, max_seconds=1700)


# ------------------------------------------------------------------ aesthetics
def ob_aesthetics(n, method):
    def fn(ctx):
        from pydl.pydlspec2d.spec2d import aesthetics
        fl = ctx.reals('f', n)
        iv = ctx.reals('iv', n)
        for v in iv:
            ctx.add(zt(v) >= 0)
        d = {'fn': 'aesthetics', 'n': n, 'method': method}
        ctx.detail = d
        zero = [bool(v == 0) for v in iv]
        out = aesthetics(symnp.rarray(fl), symnp.rarray(iv), method=method)
        ctx.require(out.shape == (n,), 'aesthetics: shape', d)
        for i in range(n):
            if not zero[i]:
                ctx.require(zt(R.lift(out[i])) == zt(fl[i]), 'aesthetics: flux changed only where the inverse variance is zero', dict(d, i=i, zero=zero))
        good = [not z for z in zero]
        if method in ('traditional', 'noconst'):
            exp = interp_oracle(fl, good)
        elif method == 'mean':
            g = [fl[i] for i in range(n) if good[i]]
            m = sum(g[1:], g[0]) / len(g) if g else None
            exp = [fl[i] if good[i] or m is None else m for i in range(n)]
        else:
            exp = list(fl)
        if any(good):
            for i in range(n):
                ctx.require(zt(R.lift(out[i])) == zt(R.lift(exp[i])), 'aesthetics: %s fill value' % method, dict(d, i=i, zero=zero))
    return Obligation('aesthetics n=%d %s' % (n, method), fn, bounds='n=%d, every flux and zero pattern' % n)


# ------------------------------------------------------------------ djs_median reflect
def ob_median_reflect(n, w):
    def fn(ctx):
        from pydl.pydlutils.math import djs_median
        from .C14 import rank_is
        xs = ctx.reals('x', n)
        d = {'fn': 'median_reflect', 'n': n, 'w': w}
        ctx.detail = d
        out = djs_median(symnp.rarray(xs), width=w, boundary='reflect')
        h = w // 2
        ctx.require(out.shape == (n,), 'djs_median reflect: shape', d)
        for i in range(n):
            win = []
            for k in range(i - h, i + h + 1):
                kk = -k - 1 if k < 0 else (2 * n - 1 - k if k >= n else k)
                win.append(xs[kk])
            ctx.require(rank_is(R.lift(out[i]), win, h), 'djs_median reflect = median filter with symmetric reflection', dict(d, i=i))
    return Obligation('djs_median reflect n=%d w=%d' % (n, w), fn, bounds='n=%d width=%d' % (n, w))


# ------------------------------------------------------------------ skymask
def ob_skymask(nrows, npix, dtype, ngrow):
    def fn(ctx):
        import pydl.pydlutils.sdss as sdss
        from pydl.pydlspec2d.spec1d import skymask
        sdss.maskbits = {'SPPIXMASK': dict(SPPIXMASK)}
        iv = [[ctx.real('iv%d_%d' % (r, p)) for p in range(npix)] for r in range(nrows)]
        om = [[ctx.bv('or%d_%d' % (r, p), dtype) for p in range(npix)] for r in range(nrows)]
        d = {'fn': 'skymask', 'nrows': nrows, 'npix': npix, 'dtype': dtype, 'ngrow': ngrow}
        ctx.detail = d
        out = skymask(symnp.rarray(iv), None, ormask=symnp._build_object(om), ngrow=ngrow)
        bits = np.dtype(dtype).itemsize * 8
        flag = 0
        for name in ('BADSKYCHI', 'REDMONSTER'):
            if SPPIXMASK[name] < bits:
                flag |= 1 << SPPIXMASK[name]
        for r in range(nrows):
            for p in range(npix):
                near = z3.Or([(om[r][q].term & z3.BitVecVal(flag, bits)) != 0 for q in range(npix) if abs(p - q) <= ngrow])
                exp = z3.If(near, z3.RealVal(0), zt(iv[r][p]))
                ctx.require(zt(R.lift(out[r, p])) == exp, 'skymask: inverse variance zeroed exactly within ngrow pixels of a BADSKYCHI/REDMONSTER pixel', dict(d, r=r, p=p))
    return Obligation('skymask %dx%d %s ngrow=%d' % (nrows, npix, dtype, ngrow), fn,
                      bounds='%dx%d pixels, every %s or-mask value' % (nrows, npix, dtype), max_paths=200000)


def obligations(tier, seed):
    q = tier == 'quick'
    obs = []
    for mode in ('sigma_scalar', 'sigma_array', 'invvar'):
        # every mask combination for n=2; fixed mask patterns for larger n
        obs.append(ob_reject(2, mode, True, True, False, False, 0))
        obs.append(ob_reject(2, mode, True, False, True, True, 0))
        obs.append(ob_reject(3, mode, True, True, False, True, 0, maskpat=(0b101, 0b110)))
        if not q or mode == 'sigma_array':
            obs.append(ob_reject(3, mode, False, True, True, False, 0, maskpat=(0b111, 0b011)))
    obs.append(ob_reject(3, 'sigma_scalar', False, False, True, False, 0, maskpat=(0b110, 0b111)))
    obs.append(ob_reject(4, 'sigma_scalar', False, True, False, False, 1, use_inmask=False, maskpat=(0, 0b1111)))
    obs.append(ob_reject(4, 'sigma_array', True, False, False, True, 2, use_inmask=False, maskpat=(0, 0b1011)))
    obs.append(ob_reject(3, 'sigma_scalar', True, True, False, False, 1, maskpat=(0b011, 0b111)))
    if not q:
        for mode in ('sigma_scalar', 'sigma_array', 'invvar'):
            obs.append(ob_reject(3, mode, True, True, False, False, 0))
            obs.append(ob_reject(3, mode, True, False, True, True, 0))
        obs.append(ob_reject(5, 'sigma_scalar', True, True, False, False, 1, maskpat=(0b11011, 0b11111)))
        obs.append(ob_reject(5, 'sigma_scalar', True, True, True, True, 2, use_inmask=False, maskpat=(0, 0b10111)))
        obs.append(ob_reject(6, 'sigma_array', False, True, False, False, 2, use_inmask=False, maskpat=(0, 0b111111)))
        obs.append(ob_reject(4, 'invvar', True, True, False, True, 1, maskpat=(0b1110, 0b0111)))
        obs.append(ob_reject(4, 'sigma_scalar', True, False, False, False, 3, use_inmask=False, maskpat=(0, 0b1111)))
    obs.append(ob_reject_2d(2, 2))
    if not q:
        obs.append(ob_reject_2d(3, 3))
    for nn in ((1, 2, 3, 4) if q else (1, 2, 3, 4, 5, 6)):
        for const in (False, True):
            obs.append(ob_maskinterp1(nn, False, const))
    for nn in ((2, 3) if q else (2, 3, 4)):
        for const in (False, True):
            obs.append(ob_maskinterp1(nn, True, const))
    for shape, axis in [((2, 3), 0), ((2, 3), 1), ((3, 2), 0)] + ([] if q else [((3, 3), 1)]):
        obs.append(ob_maskinterp_nd(shape, axis, False))
    obs.append(ob_maskinterp_nd((2, 3), 0, True))
    for axis in ((0, 1, 2) if not q else (0, 2)):
        obs.append(ob_maskinterp_nd((2, 2, 2), axis, False))
    if not q:
        obs.append(ob_maskinterp_nd((2, 2, 3), 0, True))
    for method in ('traditional', 'noconst', 'mean', 'nothing'):
        for nn in ((3,) if q else (3, 4, 5)):
            obs.append(ob_aesthetics(nn, method))
    for nn, w in [(3, 3), (4, 3), (5, 3), (5, 5)] + ([] if q else [(6, 3), (6, 5), (7, 7)]):
        obs.append(ob_median_reflect(nn, w))
    for dtype in ('i2', 'i4', 'i8', 'u8'):
        obs.append(ob_skymask(1, 3, dtype, 1))
        obs.append(ob_skymask(1, 3, dtype, 0))
    if not q:
        obs.append(ob_skymask(2, 3, 'i4', 2))
    else:
        obs.append(ob_skymask(1, 4, 'i4', 2))
    if not q:
        obs.append(ob_skymask(1, 5, 'i4', 2))
        obs.append(ob_skymask(2, 4, 'i8', 1))
    return obs


# ------------------------------------------------------------------ replay
def _f(v):
    if isinstance(v, dict):
        return int(v['num']) / int(v['den'])
    return float(v)


def _interp_float(ys, good, pos=None):
    n = len(ys)
    pos = list(range(n)) if pos is None else pos
    gi = [i for i in range(n) if good[i]]
    out = list(ys)
    if len(gi) in (0, n):
        return out
    if len(gi) == 1:
        return [ys[gi[0]]] * n
    order = sorted(gi, key=lambda i: pos[i])
    for i in range(n):
        if not good[i]:
            out[i] = float(np.interp(pos[i], [pos[g] for g in order], [ys[g] for g in order]))
    return out


def replay(rec):
    import warnings
    warnings.simplefilter('ignore')
    d = rec['detail'] or {}
    inp = rec['inputs'] or {}
    fn = d.get('fn')
    tol = 1e-9

    def close(a, b):
        return abs(a - b) <= tol * max(1.0, abs(a), abs(b))
    if fn == 'reject':
        from pydl.pydlutils.math import djs_reject
        n = d['n']
        data = np.array([_f(inp.get('data%d' % i, 0)) for i in range(n)])
        model = np.array([_f(inp.get('model%d' % i, 0)) for i in range(n)])
        kw = {}
        if d['mode'] == 'sigma_scalar':
            kw['sigma'] = _f(inp.get('sigma', 0))
            unit = [kw['sigma']] * n
        elif d['mode'] == 'sigma_array':
            kw['sigma'] = np.array([_f(inp.get('sigma%d' % i, 0)) for i in range(n)])
            unit = kw['sigma']
        else:
            s = np.array([_f(inp.get('s%d' % i, 0)) for i in range(n)])
            kw['invvar'] = s * s
        lower = _f(inp['lower']) if d['lower'] and 'lower' in inp else (0.0 if d['lower'] else None)
        upper = _f(inp['upper']) if d['upper'] and 'upper' in inp else (0.0 if d['upper'] else None)
        maxdev = _f(inp['maxdev']) if d['maxdev'] and 'maxdev' in inp else (1.0 if d['maxdev'] else None)
        inm = np.array([bool(inp.get('inmask%d' % i, True)) if d['inmask'] else True for i in range(n)])
        outm = np.array([bool(inp.get('outmask%d' % i, False)) for i in range(n)])
        if d['inmask']:
            kw['inmask'] = inm
        newmask, qdone = djs_reject(data, model, outmask=outm.copy(), lower=lower, upper=upper, maxdev=maxdev,
                                    sticky=d['sticky'], grow=d['grow'], **kw)
        diff = data - model
        bad = np.zeros(n, dtype=bool)
        for i in range(n):
            if d['mode'] == 'invvar':
                if lower is not None and diff[i] * s[i] < -lower:
                    bad[i] = True
                if upper is not None and diff[i] * s[i] > upper:
                    bad[i] = True
            else:
                if lower is not None and diff[i] < -lower * unit[i]:
                    bad[i] = True
                if upper is not None and diff[i] > upper * unit[i]:
                    bad[i] = True
            if maxdev is not None and abs(diff[i]) > maxdev:
                bad[i] = True
        considered = inm & (outm if d['sticky'] else True)
        badc = bad & considered
        exp = np.array([bool(considered[i] and not any(badc[j] for j in range(n) if abs(i - j) <= d['grow'])) for i in range(n)])
        if (np.asarray(newmask) != exp).any():
            return True
        return bool(qdone) != bool((np.asarray(newmask) == outm).all())
    if fn == 'reject2d':
        from pydl.pydlutils.math import djs_reject
        r, c = d['r'], d['c']
        data = np.array([[_f(inp.get('d%d_%d' % (i, j), 0)) for j in range(c)] for i in range(r)])
        sig, up = _f(inp.get('sigma', 0)), _f(inp.get('upper', 0))
        newmask, qdone = djs_reject(data, np.zeros((r, c)), sigma=sig, upper=up)
        return bool(((data > up * sig) == newmask).any())
    if fn == 'maskinterp1':
        from pydl.pydlutils.image import djs_maskinterp
        n = d['n']
        ys = [_f(inp.get('y%d' % i, 0)) for i in range(n)]
        masked = [bool(inp.get('m%d' % i, False)) for i in range(n)]
        kw = {}
        pos = None
        if d['use_x']:
            pos = [_f(inp.get('x%d' % i, 0)) for i in range(n)]
            kw['xval'] = np.array(pos)
        out = djs_maskinterp(np.array(ys), np.array(masked), const=d['const'], **kw)
        exp = _interp_float(ys, [not m for m in masked], pos)
        return not all(close(float(a), float(b)) for a, b in zip(out, exp))
    if fn == 'maskinterp_nd':
        from pydl.pydlutils.image import djs_maskinterp
        shape = tuple(d['shape'])
        ys = np.empty(shape)
        ms = np.empty(shape, dtype=bool)
        for idx in np.ndindex(*shape):
            ys[idx] = _f(inp.get('y' + '_'.join(map(str, idx)), 0))
            ms[idx] = bool(inp.get('m' + '_'.join(map(str, idx)), False))
        nd = len(shape)
        np_axis = nd - 1 - d['axis']
        kw = {}
        xs = None
        if d['use_x']:
            xs = np.empty(shape)
            for idx in np.ndindex(*shape):
                xs[idx] = idx[np_axis] * 2 + sum(idx) / 10
            kw['xval'] = xs
        out = djs_maskinterp(ys.copy(), ms, axis=d['axis'], **kw)
        my, mm, mo = np.moveaxis(ys, np_axis, -1), np.moveaxis(ms, np_axis, -1), np.moveaxis(out, np_axis, -1)
        mx = np.moveaxis(xs, np_axis, -1) if xs is not None else None
        for line in np.ndindex(*my.shape[:-1]):
            exp = _interp_float(list(my[line]), [not v for v in mm[line]], list(mx[line]) if mx is not None else None)
            if not all(close(float(a), float(b)) for a, b in zip(mo[line], exp)):
                return True
        return False
    if fn == 'aesthetics':
        from pydl.pydlspec2d.spec2d import aesthetics
        n = d['n']
        fl = np.array([_f(inp.get('f%d' % i, 0)) for i in range(n)])
        iv = np.array([_f(inp.get('iv%d' % i, 0)) for i in range(n)])
        out = aesthetics(fl.copy(), iv, method=d['method'])
        good = iv != 0
        if any(not close(float(out[i]), float(fl[i])) for i in range(n) if good[i]):
            return True
        if not good.any():
            return False
        if d['method'] in ('traditional', 'noconst'):
            exp = _interp_float(list(fl), list(good))
        elif d['method'] == 'mean':
            exp = [fl[i] if good[i] else fl[good].mean() for i in range(n)]
        else:
            exp = list(fl)
        return not all(close(float(a), float(b)) for a, b in zip(out, exp))
    if fn == 'median_reflect':
        from pydl.pydlutils.math import djs_median
        n, w = d['n'], d['w']
        xs = [_f(inp.get('x%d' % i, 0)) for i in range(n)]
        out = djs_median(np.array(xs), width=w, boundary='reflect')
        h = w // 2
        for i in range(n):
            win = []
            for k in range(i - h, i + h + 1):
                kk = -k - 1 if k < 0 else (2 * n - 1 - k if k >= n else k)
                win.append(xs[kk])
            if not close(float(out[i]), sorted(win)[h]):
                return True
        return False
    if fn == 'skymask':
        import pydl.pydlutils.sdss as sdss
        from pydl.pydlspec2d.spec1d import skymask
        sdss.maskbits = {'SPPIXMASK': dict(SPPIXMASK)}
        nrows, npix, dtype, ngrow = d['nrows'], d['npix'], d['dtype'], d['ngrow']
        bits = np.dtype(dtype).itemsize * 8
        iv = np.array([[_f(inp.get('iv%d_%d' % (r, p), 1)) for p in range(npix)] for r in range(nrows)])
        raw = [[int(inp.get('or%d_%d' % (r, p), 0)) for p in range(npix)] for r in range(nrows)]
        if np.dtype(dtype).kind == 'i':
            raw = [[v - (1 << bits) if v >= (1 << (bits - 1)) else v for v in row] for row in raw]
        om = np.array(raw, dtype=dtype)
        out = skymask(iv.copy(), None, ormask=om, ngrow=ngrow)   # an exception here = reproduced (handled by the caller)
        flag = 0
        for name in ('BADSKYCHI', 'REDMONSTER'):
            if SPPIXMASK[name] < bits:
                flag |= 1 << SPPIXMASK[name]
        for r in range(nrows):
            for p in range(npix):
                near = any((int(om[r, q]) & flag) != 0 for q in range(npix) if abs(p - q) <= ngrow)
                if not close(float(out[r, p]), 0.0 if near else float(iv[r, p])):
                    return True
        return False
    return False
