"""shared helpers for the yanny harnesses (C01, C02, C03, C07): in-memory file system stub and
comparison of parsed tables with expected values."""
import builtins
import numpy as np
import z3

from pathsym import core, symnp, sstr
from pathsym.core import R, B, Z, BV, zt
from pathsym.sstr import SStr


class FileExistsLikeError(Exception):
    pass


class FS(object):
    """POSIX-like create / append / read semantics on a dict path -> text (str or SStr)"""

    def __init__(self):
        self.files = {}
        self.log = []

    def open(self, path, mode='r'):
        return _FH(self, path, mode)

    def access(self, path, mode):
        return path in self.files

    def exists(self, path):
        return path in self.files

    def remove(self, path):
        del self.files[path]


class _FH(object):
    def __init__(self, fs, path, mode):
        self.fs, self.path, self.mode = fs, path, mode
        if 'r' in mode and path not in fs.files:
            raise FileNotFoundError(path)
        if 'w' in mode:
            fs.files[path] = ''
            fs.log.append(('truncate', path))
        if 'a' in mode and path not in fs.files:
            fs.files[path] = ''

    def read(self):
        return self.fs.files[self.path]

    def write(self, text):
        self.fs.files[self.path] = self.fs.files[self.path] + text
        self.fs.log.append(('write', self.path))

    def close(self):
        pass

    def __enter__(self):
        return self

    def __exit__(self, *a):
        return False


class MemFile(object):
    """file-like object handed to yanny(): text or binary mode"""

    def __init__(self, text, binary=False):
        self.text = text
        self.mode = 'rb' if binary else 'r'

    def read(self):
        if 'b' in self.mode:
            t = SStr.lift(self.text)
            return SStr.mk(t.items, True)
        return self.text


def install(ymod, fs):
    import os as real_os

    class Path(object):
        basename = staticmethod(real_os.path.basename)
        exists = staticmethod(fs.exists)
        join = staticmethod(real_os.path.join)

    class OS(object):
        path = Path
        R_OK, W_OK, F_OK = real_os.R_OK, real_os.W_OK, real_os.F_OK
        access = staticmethod(fs.access)
        remove = staticmethod(fs.remove)
    saved = (ymod.__dict__.get('os'), ymod.__dict__.get('open', None))
    ymod.os = OS
    ymod.open = fs.open
    return saved


def uninstall(ymod, saved):
    ymod.os = saved[0]
    if saved[1] is None:
        ymod.__dict__.pop('open', None)
    else:
        ymod.open = saved[1]


def S(*parts):
    """concatenate str pieces and lists of symbolic characters into a str/SStr"""
    items = []
    for p in parts:
        if isinstance(p, str):
            items.extend(p)
        elif isinstance(p, SStr):
            items.extend(p.items)
        else:
            items.extend(p)
    return SStr.mk(items)


def text_eq(a, b):
    """z3 term: two texts (str / bytes / SStr) are equal; numpy S<n> values compare without trailing NULs"""
    la, lb = SStr.lift(a if not isinstance(a, np.bytes_) else bytes(a)), SStr.lift(b if not isinstance(b, np.bytes_) else bytes(b))
    if la is None or lb is None:
        return z3.BoolVal(False)
    return la.eq_term(lb)


def num_eq(a, b):
    """z3 term: numeric cell equality (ints exactly; floats exactly as reals)"""
    def term(x):
        if isinstance(x, BV):
            t = z3.simplify(x.term)
            if z3.is_bv_value(t):
                return z3.IntVal(t.as_signed_long() if x.signed else t.as_long())
            return z3.BV2Int(x.term, is_signed=x.signed)
        if isinstance(x, (Z, R)):
            return x.z3()
        if isinstance(x, (int, np.integer)):
            return z3.IntVal(int(x))
        if isinstance(x, (float, np.floating)):
            return core._rterm(core._frac(x))
        raise TypeError(type(x))
    ta, tb = term(a), term(b)
    if ta.sort() != tb.sort():
        ta = z3.ToReal(ta) if ta.sort() == z3.IntSort() else ta
        tb = z3.ToReal(tb) if tb.sort() == z3.IntSort() else tb
    return ta == tb


def cell_eq(got, exp):
    if isinstance(exp, (list, tuple)):
        g = list(got.tolist()) if hasattr(got, 'tolist') else list(got)
        if len(g) != len(exp):
            return z3.BoolVal(False)
        return z3.And([cell_eq(a, b) for a, b in zip(g, exp)] + [z3.BoolVal(True)])
    if isinstance(exp, (str, bytes, SStr)):
        return text_eq(got, exp)
    return num_eq(got, exp)


def column_values(par, table, col):
    """values of a column as a python list, for raw (lists) and record (stand-in / ndarray) modes"""
    t = par[table]
    c = t[col]
    if hasattr(c, 'tolist') and not isinstance(c, list):
        return list(c) if getattr(c, 'ndim', 1) == 1 else [row for row in c]
    return list(c)
