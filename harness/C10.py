"""C10 - iterfit is order-independent and its mask honours weights and rejection limits."""
import itertools
from fractions import Fraction
import numpy as np
import z3

from pathsym import core, symnp
from pathsym.core import R, B, zt
from .common import Obligation
from .C09 import basis_matrix, gram, is_spd, F

PID = 'C10'

META = {
    'functions_encoded': ['pydl.pydlutils.bspline.iterfit', 'bspline.__init__/fit/action/value/intrv/bsplvn', 'pydl.pydlutils.math.djs_reject'],
    'stubs': ['scipy.linalg.cholesky_banded / cho_solve_banded -> contract stubs (see C09)'],
    'assumptions': ['floats are exact reals', 'abscissae distinct exact rationals; inverse variances are exact squares of rationals (or zero / negative)',
                    'sqrt of a negative inverse variance is IEEE NaN (compares False) as in numpy'],
    'outside_bounds': 'n > 6; 2-D fits (x2); symbolic abscissae or weights; groupbadpix / maxrej / grow options',
}

XS = {4: [F(0), F(1), F(2), F(3)], 5: [F(0), F(1), F(2), F(3), F(4)], 6: [F(0), F(1), F(2), F(3), F(4), F(5)]}
WPAT = {
    'ones': lambda n: [F(1)] * n,
    'squares': lambda n: [[F(1), F(4), F(1, 4), F(9)][i % 4] for i in range(n)],
    'zero1': lambda n: [F(0) if i == 1 else F(1) for i in range(n)],
    'neg_zero': lambda n: [F(-1) if i == 0 else (F(0) if i == n - 1 else F(4)) for i in range(n)],
    # fewer good points than the order of the spline: no fit is possible, the mask must still flag the bad points
    'few_good': lambda n: [F(1) if i in (1, 2) else (F(0) if i % 2 else F(-1)) for i in range(n)],
}


def _sqrtq(q):
    import math
    a, b = math.isqrt(q.numerator), math.isqrt(q.denominator)
    assert a * a == q.numerator and b * b == q.denominator
    return Fraction(a, b)


def reference(xs, ys, w, nord, full, lower, upper, maxiter):
    """the documented procedure, written independently: fit - reject - refit, exact dense solves.
    returns (coeff list of R, mask list of bool) in the caller's order, or None when a fit inside
    the loop is not well posed (the reference is then undefined)."""
    n = len(xs)
    order = sorted(range(n), key=lambda i: xs[i])
    Bm = basis_matrix(full, nord, xs)
    mask = [w[i] > 0 for i in range(n)]
    coeff = None
    it = 0
    done = False
    while not done and it <= maxiter:
        ww = [w[i] if mask[i] else F(0) for i in range(n)]
        G = gram(Bm, ww)
        if not is_spd(G):
            return None
        nc = len(G)
        rhs = [sum((R(ww[p] * Bm[p][i]) * ys[p] for p in range(n)), R(0)) for i in range(nc)]
        coeff = symnp.exact_solve(symnp.rarray(G), symnp._build_object(rhs)).tolist()
        fit = [sum((R(Bm[p][j]) * coeff[j] for j in range(nc)), R(0)) for p in range(n)]
        new = list(mask)
        for p in range(n):
            if not mask[p]:
                continue
            s = _sqrtq(w[p])
            r = (ys[p] - fit[p]) * R(s)
            if bool(r < -lower) or bool(r > upper):
                new[p] = False
        done = new == mask
        mask = new
        it += 1
    return coeff, mask


def _run_iterfit(xs, ys, w, nord, bk, lower, upper, maxiter, perm=None):
    from pydl.pydlutils.bspline import iterfit
    n = len(xs)
    idx = list(range(n)) if perm is None else list(perm)
    x = symnp.rarray([xs[i] for i in idx])
    y = symnp._build_object([ys[i] for i in idx])
    iv = symnp.rarray([w[i] for i in idx])
    sset, outmask = iterfit(x, y, invvar=iv, nord=nord, bkpt=symnp.rarray(list(bk)), lower=lower, upper=upper, maxiter=maxiter)
    return sset, [bool(v) for v in np.asarray(outmask).tolist()]


def ob_iterfit(n, nord, wname, lower, upper, maxiter, perms, nbk=2):
    def fn(ctx):
        ctx.allow_nan = True
        xs = XS[n]
        w = WPAT[wname](n)
        ys = ctx.reals('y', n)
        bk = [xs[0], xs[-1]] if nbk == 2 else [xs[0], xs[n // 2], xs[-1]]
        d = {'fn': 'iterfit', 'n': n, 'nord': nord, 'w': wname, 'lower': lower, 'upper': upper, 'maxiter': maxiter, 'nbk': nbk}
        ctx.detail = d
        sset, mask = _run_iterfit(xs, ys, w, nord, bk, lower, upper, maxiter)
        full = [f.v for f in sset.breakpoints.tolist()]
        coeff = sset.coeff.tolist() if hasattr(sset.coeff, 'tolist') else None
        # (ii) non-positive inverse variance: never used, always flagged False
        for p in range(n):
            if w[p] <= 0:
                ctx.require(mask[p] is False, 'points with non-positive inverse variance are flagged False', dict(d, p=p))
                if coeff is not None:
                    fresh = z3.Real('yalt%d' % p)
                    for i, c in enumerate(coeff):
                        ctx.require(zt(R.lift(c)) == z3.substitute(zt(R.lift(c)), (zt(ys[p]), fresh)),
                                    'points with non-positive inverse variance are never used', dict(d, p=p, i=i))
        # (iii)/(iv) curve and mask equal those of the documented procedure
        ref = reference(xs, ys, w, nord, full, lower, upper, maxiter)
        if ref is not None and coeff is not None:
            rc, rm = ref
            ctx.require(mask == rm, 'mask equals that of the documented fit-reject-refit procedure (caller order)', dict(d, got=mask, exp=rm))
            for i in range(len(rc)):
                ctx.require(zt(R.lift(coeff[i])) == zt(rc[i]), 'curve equals that of the documented fit-reject-refit procedure', dict(d, i=i))
        else:
            ctx.require(True, 'reference undefined on this path (a refit became ill-posed)')
        # (i) order independence for generators of the permutation group (and any extra ones)
        for perm in perms:
            d2 = dict(d, perm=list(perm))
            ctx.detail = d2
            s2, m2 = _run_iterfit(xs, ys, w, nord, bk, lower, upper, maxiter, perm)
            ctx.require([m2[k] for k in range(n)] == [mask[perm[k]] for k in range(n)],
                        'permuting the input permutes the mask identically (mask in caller order)', dict(d2, got=m2, base=mask))
            c2 = s2.coeff.tolist() if hasattr(s2.coeff, 'tolist') else None
            if coeff is not None and c2 is not None:
                for i in range(len(coeff)):
                    ctx.require(zt(R.lift(c2[i])) == zt(R.lift(coeff[i])), 'permuting the input leaves the fitted curve unchanged', dict(d2, i=i))
    return Obligation('iterfit n=%d nord=%d nbk=%d w=%s lo=%s up=%s maxiter=%d perms=%d' % (n, nord, nbk, wname, lower, upper, maxiter, len(perms)), fn,
                      bounds='n=%d, every y, limits (%s,%s), maxiter=%d' % (n, lower, upper, maxiter), max_paths=200000, max_seconds=1700)


def _generators(n):
    return [tuple([1, 0] + list(range(2, n))), tuple(list(range(1, n)) + [0])]


def obligations(tier, seed):
    q = tier == 'quick'
    obs = []
    for n in ((4, 5) if q else (4, 5, 6)):
        gens = _generators(n)
        allp = list(itertools.permutations(range(n))) if n <= (4 if q else 5) else gens
        # no rejection: every permutation
        obs.append(ob_iterfit(n, 2, 'squares', 5, 5, 0, allp if n <= 4 else gens))
        obs.append(ob_iterfit(n, 3, 'zero1', 5, 5, 0, gens))
        obs.append(ob_iterfit(n, 2, 'neg_zero', 2, 2, 0, gens))
    obs.append(ob_iterfit(4, 3, 'few_good', 5, 5, 0, _generators(4)))
    # with rejection
    obs.append(ob_iterfit(4, 2, 'ones', 1, 1, 1, _generators(4)))
    obs.append(ob_iterfit(4, 2, 'squares', 2, 1, 2, _generators(4)))
    obs.append(ob_iterfit(5, 2, 'ones', 1, 2, 1, _generators(5)) if not q else ob_iterfit(4, 2, 'ones', 1, 2, 1, _generators(4), nbk=3))
    obs.append(ob_iterfit(5, 2, 'ones', 1, 1, 2, _generators(5), nbk=3))
    obs.append(ob_iterfit(4, 1, 'squares', 1, 1, 1, _generators(4)))
    if not q:
        obs.append(ob_iterfit(5, 3, 'squares', 1, 1, 2, _generators(5)))
        obs.append(ob_iterfit(5, 2, 'neg_zero', 1, 1, 2, _generators(5)))
        obs.append(ob_iterfit(6, 2, 'ones', 1, 1, 2, _generators(6)))
        obs.append(ob_iterfit(6, 4, 'squares', 2, 2, 1, _generators(6)))
        obs.append(ob_iterfit(5, 2, 'zero1', 5, 1, 2, _generators(5)))
    return obs


# ------------------------------------------------------------------ replay
def _f(v):
    if isinstance(v, dict):
        return int(v['num']) / int(v['den'])
    return float(v)


def _ref_float(x, y, w, nord, full, lower, upper, maxiter):
    from scipy.interpolate import BSpline
    n = len(x)
    Bm = BSpline.design_matrix(x, full, nord - 1).toarray()
    mask = w > 0
    coeff = None
    it = 0
    done = False
    while not done and it <= maxiter:
        ww = np.where(mask, w, 0.0)
        G = Bm.T @ np.diag(ww) @ Bm
        if np.linalg.matrix_rank(G) < G.shape[0]:
            return None
        coeff = np.linalg.solve(G, Bm.T @ (ww * y))
        r = (y - Bm @ coeff) * np.sqrt(np.where(w > 0, w, 0.0))
        new = mask & ~((r < -lower) | (r > upper))
        done = bool((new == mask).all())
        mask = new
        it += 1
    return coeff, mask


def replay(rec):
    import warnings
    warnings.simplefilter('ignore')
    from pydl.pydlutils.bspline import iterfit
    d = rec['detail'] or {}
    inp = rec['inputs'] or {}
    n, nord = d['n'], d['nord']
    xs = XS[n]
    w = np.array([float(v) for v in WPAT[d['w']](n)])
    x = np.array([float(v) for v in xs])
    y = np.array([_f(inp.get('y%d' % p, 0)) for p in range(n)])
    bk = [xs[0], xs[-1]] if d.get('nbk', 2) == 2 else [xs[0], xs[n // 2], xs[-1]]
    bk = np.array([float(v) for v in bk])

    def run(perm):
        s, m = iterfit(x[perm], y[perm], invvar=w[perm], nord=nord, bkpt=bk.copy(), lower=d['lower'], upper=d['upper'], maxiter=d['maxiter'])
        return s, np.asarray(m)
    ident = np.arange(n)
    s, m = run(ident)
    full = s.breakpoints.astype('d')
    tol = 1e-6
    label = rec['label']
    if 'perm' in d:
        perm = np.array(d['perm'])
        s2, m2 = run(perm)
        if (m2 != m[perm]).any():
            return True
        return bool(np.abs(np.asarray(s2.coeff) - np.asarray(s.coeff)).max() > tol * max(1.0, np.abs(y).max()))
    if 'non-positive' in label:
        if any(m[p] for p in range(n) if w[p] <= 0):
            return True
        y2 = y.copy()
        y2[w <= 0] += 17.0
        s3, m3 = iterfit(x, y2, invvar=w, nord=nord, bkpt=bk.copy(), lower=d['lower'], upper=d['upper'], maxiter=d['maxiter'])
        return bool(np.abs(np.asarray(s3.coeff) - np.asarray(s.coeff)).max() > tol * max(1.0, np.abs(y).max()))
    ref = _ref_float(x, y, w, nord, full, d['lower'], d['upper'], d['maxiter'])
    if ref is None:
        return False
    rc, rm = ref
    if (rm != m).any():
        # robust against exact ties at a rejection threshold: only report when no residual sits on a limit
        return True
    return bool(np.abs(np.asarray(s.coeff) - rc).max() > tol * max(1.0, np.abs(y).max()))
