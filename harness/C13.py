"""C13 - trace sets: bases are the textbook polynomials; fit and evaluate are consistent."""
from fractions import Fraction
import numpy as np
import z3

from pathsym import core, symnp
from pathsym.core import R, B, zt
from .common import Obligation

PID = 'C13'

META = {
    'functions_encoded': ['pydl.goddard.math.flegendre', 'pydl.pydlutils.trace.fchebyshev', 'fchebyshev_split', 'fpoly',
                          'pydl.pydlutils.trace.func_fit', 'pydl.pydlutils.trace.TraceSet.__init__/xy/xnorm', 'pydl.pydlutils.math.djs_reject',
                          'pydl.pydlutils.misc.djs_laxisgen'],
    'stubs': ['numpy.linalg.solve -> exact solution over the rationals (contract of LAPACK gesv); numpy.polyval -> Horner scheme'],
    'assumptions': ['floats are exact reals; scipy\'s stored Legendre/Chebyshev coefficients are taken at their exact binary values, hence the '
                    '1e-9 tolerances against the textbook polynomials',
                    'func_fit abscissae, weights, fixed-parameter patterns are concrete exact rationals; y is symbolic'],
    'outside_bounds': 'symbolic abscissae inside the least-squares solve; orders above 12; FITS-table constructor of TraceSet',
}


def F(a, b=1):
    return Fraction(a, b)


def legendre_ref(m, x):
    out = [R(1), x]
    for k in range(1, m):
        out.append((x * out[k] * (2 * k + 1) - out[k - 1] * k) / (k + 1))
    return out[:m]


def chebyshev_ref(m, x):
    out = [R(1), x]
    for k in range(1, m):
        out.append(x * out[k] * 2 - out[k - 1])
    return out[:m]


def poly_ref(m, x):
    out = [R(1)]
    for k in range(1, m):
        out.append(out[-1] * x)
    return out[:m]


REFS = {'legendre': legendre_ref, 'chebyshev': chebyshev_ref, 'poly': poly_ref}


def _funcs():
    from pydl.goddard.math import flegendre
    from pydl.pydlutils.trace import fchebyshev, fpoly, fchebyshev_split
    return {'legendre': flegendre, 'chebyshev': fchebyshev, 'poly': fpoly, 'split': fchebyshev_split}


def ob_basis(name, m, form):
    def fn(ctx):
        f = _funcs()[name]
        x = ctx.real('x')
        ctx.add(z3.And(zt(x) >= -1, zt(x) <= 1))
        d = {'fn': 'basis', 'name': name, 'm': m, 'form': form}
        ctx.detail = d
        if form == 'intarray':
            # an integer-typed abscissa array (e.g. pixel offsets -1, 0, 1): the polynomials are not integers
            from pathsym.core import Z
            ctx.ints_as_Z = True
            xi, xi2 = ctx.int('xi', -1, 1), ctx.int('xi2', -1, 1)
            vals = f(symnp._build_object([Z(xi.v), Z(xi2.v)]), m)
            ctx.require(vals.shape == (m, 2), 'basis: shape (m, n)', d)
            cols = [(R(z3.ToReal(xi.v)), [vals[k, 0] for k in range(m)]), (R(z3.ToReal(xi2.v)), [vals[k, 1] for k in range(m)])]
        elif form == 'array':
            x2 = ctx.real('x2')
            ctx.add(z3.And(zt(x2) >= -1, zt(x2) <= 1))
            vals = f(symnp.rarray([x, x2]), m)
            ctx.require(vals.shape == (m, 2), 'basis: shape (m, n)', d)
            cols = [(x, [vals[k, 0] for k in range(m)]), (x2, [vals[k, 1] for k in range(m)])]
        else:
            vals = f(x, m)
            ctx.require(vals.shape == (m, 1), 'basis: shape (m, 1) for a scalar', d)
            cols = [(x, [vals[k, 0] for k in range(m)])]
        eps = z3.RealVal('1e-9')
        for xv, col in cols:
            if name == 'split':
                ref = [core.ite(xv >= 0, R(1), R(0)), R(1)]
                if m > 2:
                    ref.append(xv)
                for k in range(3, m):
                    ref.append(xv * ref[k - 1] * 2 - ref[k - 2])
            else:
                ref = REFS[name](m, xv)
            for k in range(m):
                df = zt(R.lift(col[k])) - zt(R.lift(ref[k]))
                ctx.require(z3.And(df <= eps, -df <= eps), 'basis function equals its textbook definition (to 1e-9)', dict(d, k=k))
    return Obligation('basis %s m=%d %s' % (name, m, form), fn, bounds='every x in [-1,1], first %d functions' % m, solver_timeout_ms=120000)


FIT_X = {
    5: [F(-1), F(-1, 2), F(0), F(1, 3), F(1)],
    6: [F(-1), F(-3, 5), F(-1, 5), F(1, 4), F(3, 5), F(1)],
}
FIT_W = {'ones': lambda n: [F(1)] * n, 'varied': lambda n: [F(1 + (3 * i) % 4, 2) for i in range(n)],
         'zero': lambda n: [F(0) if i in (1, n - 1) else F(2) for i in range(n)]}


def ob_funcfit(func, n, ncoeff, wname, ia, with_inputfunc):
    def fn(ctx):
        from pydl.pydlutils.trace import func_fit
        xs = FIT_X[n]
        w = FIT_W[wname](n)
        ys = ctx.reals('y', n)
        d = {'fn': 'funcfit', 'func': func, 'n': n, 'ncoeff': ncoeff, 'w': wname, 'ia': ia, 'inputfunc': with_inputfunc}
        ctx.detail = d
        kw = {}
        ans = None
        if ia is not None:
            kw['ia'] = np.array(ia, dtype=bool)
            ans = [ctx.real('ans%d' % k) for k in range(ncoeff)]
            kw['inputans'] = symnp.rarray(ans)
        infunc = None
        if with_inputfunc:
            infunc = [F(1 + i, 3) for i in range(n)]
            kw['inputfunc'] = symnp.rarray(infunc)
        res, yfit = func_fit(symnp.rarray(xs), symnp.rarray(ys), ncoeff, invvar=symnp.rarray(w), function_name=func, **kw)
        res = [R.lift(v) for v in res.tolist()]
        yfit = [R.lift(v) for v in yfit.tolist()]
        # harness basis: textbook polynomials at the exact abscissae
        Bm = [[b.v * (infunc[p] if infunc else 1) for b in REFS[func](ncoeff, R(xs[p]))] for p in range(n)]
        free = [k for k in range(ncoeff) if ia is None or ia[k]]
        fixed = [k for k in range(ncoeff) if k not in free]
        exact = func == 'poly' or ncoeff <= 2
        scale = z3.Sum([z3.If(zt(y) >= 0, zt(y), -zt(y)) for y in ys] + [z3.If(zt(a) >= 0, zt(a), -zt(a)) for a in (ans or [])] + [z3.RealVal(0)])
        tol = scale * z3.RealVal('1e-9')

        def req(lhs, rhs, label, det):
            if exact:
                ctx.require(lhs == rhs, label, det)
            else:
                ctx.require(z3.And(lhs - rhs <= tol, rhs - lhs <= tol), label, det)
        for k in fixed:
            ctx.require(zt(res[k]) == zt(ans[k]), 'func_fit: fixed coefficients keep their prescribed values', dict(d, k=k))
        for i in free:
            lhs = z3.Sum([z3.RealVal(str(w[p] * Bm[p][i])) * (zt(ys[p]) - z3.Sum([z3.RealVal(str(Bm[p][j])) * zt(res[j]) for j in range(ncoeff)]))
                          for p in range(n)])
            req(lhs, z3.RealVal(0), 'func_fit: weighted normal equations hold for the free coefficients', dict(d, i=i))
        for p in range(n):
            ref = z3.Sum([z3.RealVal(str(Bm[p][j])) * zt(res[j]) for j in range(ncoeff)])
            req(zt(yfit[p]), ref, 'func_fit: returned fit = basis times coefficients', dict(d, p=p))
        for p in range(n):
            if w[p] == 0:
                fresh = z3.Real('yalt%d' % p)
                for k in range(ncoeff):
                    ctx.require(zt(res[k]) == z3.substitute(zt(res[k]), (zt(ys[p]), fresh)),
                                'func_fit: zero-weight points have no influence', dict(d, p=p, k=k))
    return Obligation('func_fit %s n=%d nc=%d w=%s ia=%s infunc=%d' % (func, n, ncoeff, wname, ia, with_inputfunc), fn,
                      bounds='n=%d, ncoeff=%d, every y (and fixed values)' % (n, ncoeff))


def ob_funcfit_recover(func, n, ncoeff):
    def fn(ctx):
        from pydl.pydlutils.trace import func_fit
        xs = FIT_X[n]
        a = ctx.reals('a', ncoeff)
        d = {'fn': 'recover', 'func': func, 'n': n, 'ncoeff': ncoeff}
        ctx.detail = d
        ys = []
        for p in range(n):
            b = REFS[func](ncoeff, R(xs[p]))
            ys.append(sum((b[k] * a[k] for k in range(1, ncoeff)), b[0] * a[0]))
        res, yfit = func_fit(symnp.rarray(xs), symnp._build_object(ys), ncoeff, invvar=symnp.rarray(FIT_W['varied'](n)), function_name=func)
        scale = z3.Sum([z3.If(zt(v) >= 0, zt(v), -zt(v)) for v in a])
        tol = scale * z3.RealVal('1e-9') if not (func == 'poly' or ncoeff <= 2) else z3.RealVal(0)
        for k in range(ncoeff):
            df = zt(R.lift(res[k])) - zt(a[k])
            ctx.require(z3.And(df <= tol, -df <= tol), 'func_fit: data that are an exact combination of the basis are recovered', dict(d, k=k))
    return Obligation('func_fit recover %s n=%d nc=%d' % (func, n, ncoeff), fn, bounds='every coefficient vector')


# jump variants: 1 = in the interior, 2 = starting exactly at 0, 3 = ending at 0 with a negative start
JUMPS = {1: (F(2), F(4), F(1, 2)), 2: (F(0), F(3), F(1, 2)), 3: (F(-2), F(0), F(-1, 4))}


def ob_traceset(func, ntrace, nx, ncoeff, jump):
    def fn(ctx):
        from pydl.pydlutils.trace import TraceSet
        xpos = [[F(10 * t) + F(j * 3, 2) for j in range(nx)] for t in range(ntrace)]
        ys = [[ctx.real('y%d_%d' % (t, j)) for j in range(nx)] for t in range(ntrace)]
        d = {'fn': 'traceset', 'func': func, 'ntrace': ntrace, 'nx': nx, 'ncoeff': ncoeff, 'jump': jump}
        ctx.detail = d
        kw = {}
        if jump:
            kw = dict(zip(('xjumplo', 'xjumphi', 'xjumpval'), JUMPS[jump]))
            kw = {k: R(v) for k, v in kw.items()}
        tset = TraceSet(symnp.rarray(xpos), symnp.rarray(ys), func=func, ncoeff=ncoeff, **kw)
        ctx.require(tset.coeff.shape == (ntrace, ncoeff), 'TraceSet: coefficient matrix shape', d)
        xo, yo = tset.xy(symnp.rarray(xpos))
        for t in range(ntrace):
            for j in range(nx):
                ctx.require(zt(R.lift(yo[t, j])) == zt(R.lift(tset.yfit[t, j])),
                            'TraceSet: evaluating at the fitted positions returns the fitted values', dict(d, t=t, j=j))
        # default grid: xmin .. xmax in unit steps
        xg, yg = tset.xy()
        xmin, xmax = R.lift(tset.xmin), R.lift(tset.xmax)
        nxg = xg.shape[1]
        ctx.require(xg.shape[0] == ntrace, 'TraceSet: default grid has one row per trace', d)
        for t in range(ntrace):
            for j in range(nxg):
                ctx.require(zt(R.lift(xg[t, j])) == zt(xmin) + j, 'TraceSet: default grid runs from xmin in unit steps', dict(d, t=t, j=j))
        ctx.require(z3.And(zt(xmin) + (nxg - 1) <= zt(xmax), zt(xmax) < zt(xmin) + nxg), 'TraceSet: default grid spans xmin..xmax', d)
    return Obligation('TraceSet %s %dx%d nc=%d jump=%d' % (func, ntrace, nx, ncoeff, jump), fn, bounds='%d traces x %d points, every y' % (ntrace, nx))


def obligations(tier, seed):
    q = tier == 'quick'
    obs = []
    M = 8 if q else 12
    for name in ('legendre', 'chebyshev', 'poly'):
        obs.append(ob_basis(name, M, 'scalar'))
        obs.append(ob_basis(name, 5 if q else 8, 'array'))
        obs.append(ob_basis(name, 1, 'scalar'))
        obs.append(ob_basis(name, 4, 'intarray'))
    obs.append(ob_basis('split', 6 if q else 10, 'scalar'))
    obs.append(ob_basis('split', 4, 'array'))
    combos = [('poly', 5, 3, 'varied', None, False), ('legendre', 5, 3, 'ones', None, False), ('chebyshev', 6, 4, 'zero', None, False),
              ('legendre', 6, 4, 'varied', (True, False, True, True), False), ('poly', 6, 3, 'zero', (False, True, True), True),
              ('legendre', 5, 2, 'zero', None, True), ('chebyshev', 5, 3, 'varied', (True, True, False), False)]
    if not q:
        combos += [(f, n, nc, wn, None, inf) for f in REFS for n in (5, 6) for nc in (1, 2, 3, 4) for wn in FIT_W for inf in (False, True)]
        combos += [('poly', 6, 4, 'varied', (True, False, False, True), False), ('legendre', 6, 3, 'ones', (False, False, True), True)]
    seen = set()
    for c in combos:
        if c not in seen:
            seen.add(c)
            obs.append(ob_funcfit(*c))
    for f in REFS:
        obs.append(ob_funcfit_recover(f, 6, 3 if q else 4))
    for f, nt, nx, nc, j in [('legendre', 2, 5, 3, 0), ('legendre', 1, 5, 3, 1), ('chebyshev', 2, 4, 2, 2), ('poly', 1, 6, 4, 0), ('legendre', 1, 5, 3, 3)]:
        obs.append(ob_traceset(f, nt, nx, nc, j))
    if not q:
        obs.append(ob_traceset('chebyshev', 3, 6, 4, 1))
        obs.append(ob_traceset('poly', 2, 6, 3, 2))
        obs.append(ob_traceset('legendre', 2, 6, 3, 2))
        obs.append(ob_traceset('chebyshev', 2, 5, 3, 3))
    return obs


# ------------------------------------------------------------------ replay
def _f(v):
    if isinstance(v, dict):
        return int(v['num']) / int(v['den'])
    return float(v)


def replay(rec):
    import warnings
    warnings.simplefilter('ignore')
    from numpy.polynomial import legendre as L, chebyshev as C
    from pydl.goddard.math import flegendre
    from pydl.pydlutils.trace import fchebyshev, fpoly, fchebyshev_split, func_fit, TraceSet
    d = rec['detail'] or {}
    inp = rec['inputs'] or {}
    fn = d.get('fn')

    def refmat(func, m, x):
        x = np.atleast_1d(np.asarray(x, dtype=float))
        if func == 'legendre':
            return np.array([L.legval(x, [0] * k + [1]) for k in range(m)])
        if func == 'chebyshev':
            return np.array([C.chebval(x, [0] * k + [1]) for k in range(m)])
        return np.array([x ** k for k in range(m)])
    if fn == 'basis':
        name, m = d['name'], d['m']
        f = {'legendre': flegendre, 'chebyshev': fchebyshev, 'poly': fpoly, 'split': fchebyshev_split}[name]
        xs = [_f(inp.get('x', 0))] + ([_f(inp.get('x2', 0))] if d['form'] == 'array' else [])
        if d['form'] == 'intarray':
            xs = [int(inp.get('xi', 0)), int(inp.get('xi2', 0))]
        vals = f(np.array(xs), m) if d['form'] in ('array', 'intarray') else f(xs[0], m)
        if vals.shape != (m, len(xs)):
            return True
        if name == 'split':
            ref = np.ones((m, len(xs)))
            xa = np.array(xs)
            ref[0] = (xa >= 0)
            if m > 2:
                ref[2] = xa
            for k in range(3, m):
                ref[k] = 2 * xa * ref[k - 1] - ref[k - 2]
        else:
            ref = refmat(name, m, xs)
        return bool(np.abs(vals - ref).max() > 1e-9)
    if fn in ('funcfit', 'recover'):
        func, n, ncoeff = d['func'], d['n'], d['ncoeff']
        x = np.array([float(v) for v in FIT_X[n]])
        if fn == 'recover':
            a = np.array([_f(inp.get('a%d' % k, 0)) for k in range(ncoeff)])
            y = refmat(func, ncoeff, x).T @ a
            res, yfit = func_fit(x, y, ncoeff, invvar=np.array([float(v) for v in FIT_W['varied'](n)]), function_name=func)
            return bool(np.abs(res - a).max() > 1e-7 * max(1.0, np.abs(a).max()))
        w = np.array([float(v) for v in FIT_W[d['w']](n)])
        y = np.array([_f(inp.get('y%d' % p, 0)) for p in range(n)])
        kw = {}
        ia = d['ia']
        ans = None
        if ia is not None:
            kw['ia'] = np.array(ia, dtype=bool)
            ans = np.array([_f(inp.get('ans%d' % k, 0)) for k in range(ncoeff)])
            kw['inputans'] = ans
        Bm = refmat(func, ncoeff, x).T
        if d['inputfunc']:
            inf = np.array([(1 + i) / 3 for i in range(n)])
            kw['inputfunc'] = inf
            Bm = Bm * inf[:, None]
        res, yfit = func_fit(x, y, ncoeff, invvar=w, function_name=func, **kw)
        free = [k for k in range(ncoeff) if ia is None or ia[k]]
        fixed = [k for k in range(ncoeff) if k not in free]
        scale = max(1.0, np.abs(y).max(), np.abs(ans).max() if ans is not None else 0)
        if any(abs(res[k] - ans[k]) > 1e-9 * scale for k in fixed):
            return True
        resid = y - Bm @ res
        grad = Bm[:, free].T @ (w * resid)
        if np.abs(grad).max() > 1e-7 * scale:
            return True
        if np.abs(yfit - Bm @ res).max() > 1e-7 * scale:
            return True
        if 'zero-weight' in rec['label']:
            y2 = y.copy()
            y2[w == 0] += 13.0
            res2, _ = func_fit(x, y2, ncoeff, invvar=w, function_name=func, **kw)
            return bool(np.abs(res2 - res).max() > 1e-9 * scale)
        return False
    if fn == 'traceset':
        ntrace, nx, ncoeff = d['ntrace'], d['nx'], d['ncoeff']
        xpos = np.array([[10.0 * t + j * 1.5 for j in range(nx)] for t in range(ntrace)])
        ys = np.array([[_f(inp.get('y%d_%d' % (t, j), 0)) for j in range(nx)] for t in range(ntrace)])
        kw = dict(zip(('xjumplo', 'xjumphi', 'xjumpval'), [float(v) for v in JUMPS[int(d['jump'])]])) if d['jump'] else {}
        tset = TraceSet(xpos, ys, func=d['func'], ncoeff=ncoeff, **kw)
        xo, yo = tset.xy(xpos)
        if np.abs(yo - tset.yfit).max() > 1e-9 * max(1.0, np.abs(ys).max()):
            return True
        xg, yg = tset.xy()
        if xg.shape[0] != ntrace:
            return True
        exp = tset.xmin + np.arange(xg.shape[1])
        if np.abs(xg - exp[None, :]).max() > 1e-9:
            return True
        return not (exp[-1] <= tset.xmax < exp[-1] + 1)
    return False
