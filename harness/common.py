"""Shared runner: obligations -> parallel exploration -> replay of counterexamples on the
uninstrumented code -> known-findings filter -> evidence file -> exit code."""
import json
import multiprocessing as mp
import os
import re
import subprocess
import sys
import time
import traceback

VERIF = os.path.dirname(os.path.dirname(os.path.abspath(__file__)))
REPO = os.environ.get('PYDL_REPO', '/repo')
if VERIF not in sys.path:
    sys.path.insert(0, VERIF)

from pathsym import core, loader, symnp, sx  # noqa: E402

EXIT_OK, EXIT_VIOLATION, EXIT_INCONCLUSIVE, EXIT_HARNESS = 0, 1, 2, 3


def setup_instrumented():
    symnp.install_imports()
    from pathsym import symre
    symre.install()
    loader.install()
    # import the instrumented modules once in the parent so that forked workers share them
    import importlib
    for m in ('pydl', 'pydl.pydlutils.bspline', 'pydl.pydlutils.math', 'pydl.pydlutils.image',
              'pydl.pydlutils.sdss', 'pydl.pydlutils.mangle', 'pydl.pydlutils.spheregroup',
              'pydl.pydlutils.trace', 'pydl.pydlutils.yanny', 'pydl.pydlspec2d.spec1d',
              'pydl.pydlspec2d.spec2d', 'pydl.photoop.window', 'pydl.photoop.photoobj',
              'pydl.photoop.sdssio', 'pydl.goddard.astro', 'pydl.goddard.math'):
        importlib.import_module(m)


class Obligation(object):
    """one bounded symbolic query family: fn(ctx) is re-run once per feasible path."""

    def __init__(self, name, fn, bounds='', mode='exact', max_paths=200000, max_seconds=900.0,
                 solver_timeout_ms=60000, expect_symbolic=True, logic=None, nonfinite='cut',
                 max_violations=6, purify_div=False, incremental_ms=15000, fresh_strategy='timeout-first'):
        self.name = name
        self.fn = fn
        self.bounds = bounds
        self.mode = mode
        self.max_paths = max_paths
        self.max_seconds = max_seconds
        self.solver_timeout_ms = solver_timeout_ms
        self.expect_symbolic = expect_symbolic
        self.logic = logic
        self.nonfinite = nonfinite
        self.max_violations = max_violations
        self.purify_div = purify_div
        self.incremental_ms = incremental_ms
        self.fresh_strategy = fresh_strategy


_OBLIGATIONS = None


def _run_one(i):
    ob = _OBLIGATIONS[i]
    t0 = time.time()
    res = {'name': ob.name, 'bounds': ob.bounds, 'status': 'ok'}
    stats = {}
    for twin in (False, True):
        ex = core.Explorer(name=ob.name, solver_timeout_ms=ob.solver_timeout_ms,
                           max_paths=ob.max_paths if not twin else 50, max_seconds=ob.max_seconds,
                           logic=ob.logic, nonfinite=ob.nonfinite,
                           max_violations=ob.max_violations if not twin else 1)
        ex.mode = ob.mode
        ex.purify_div = ob.purify_div
        ex.incremental_timeout_ms = ob.incremental_ms
        ex.fresh_strategy = ob.fresh_strategy
        ex.twin = twin
        if twin:
            orig = ex.require
            ex.require = lambda cond, label, detail=None, _o=orig: _o(False, 'twin:' + label)
        try:
            ex.explore(ob.fn)
            st = ex.stats()
        except core.Inconclusive as e:
            st = ex.stats()
            if not twin:
                res['status'] = 'inconclusive'
                res['reason'] = str(e)
        except core.Unsupported as e:
            st = ex.stats()
            if not twin:
                res['status'] = 'inconclusive'
                res['reason'] = 'unsupported operation: %s' % (e,)
                res['trace'] = traceback.format_exc()[-1500:]
        except Exception as e:  # harness bug or pydl failure outside any expectation
            st = ex.stats()
            if not twin:
                res['status'] = 'error'
                res['reason'] = '%s: %s' % (type(e).__name__, e)
                res['trace'] = traceback.format_exc()[-3000:]
        if not twin:
            stats = st
            if res['status'] != 'ok':
                break
        else:
            # the twin only has to show that an assertion is reachable on a satisfiable path;
            # budget exhaustion after it was reached is irrelevant
            res['twin_reached'] = len(st.get('violations', [])) > 0
    res.update(stats)
    if res['status'] == 'ok':
        if res.get('requires', 0) == 0:
            res['status'] = 'error'
            res['reason'] = 'vacuous: no assertion was reached'
        elif not res.get('twin_reached', False):
            res['status'] = 'error'
            res['reason'] = 'vacuous: reachability twin did not fail'
        elif ob.expect_symbolic and res.get('sym_requires', 0) == 0 and res.get('decisions', 0) == 0:
            res['status'] = 'error'
            res['reason'] = 'vacuous: no symbolic assertion or decision (nothing symbolic reached the code)'
    res['wall_s'] = round(time.time() - t0, 3)
    return res


def _child(i, conn):
    try:
        res = _run_one(i)
    except BaseException as e:   # never let a worker die silently
        res = {'name': _OBLIGATIONS[i].name, 'bounds': _OBLIGATIONS[i].bounds, 'status': 'error',
               'reason': 'worker failed: %s: %s' % (type(e).__name__, e), 'trace': traceback.format_exc()[-2000:]}
    try:
        conn.send(res)
    finally:
        conn.close()
    os._exit(0)        # skip interpreter teardown (z3 finalisers)


def run_obligations(obligations, nproc=None):
    """one forked process per obligation (at most nproc at a time), each under a hard wall-clock
    limit: a worker that dies (solver crash) or hangs is reported as inconclusive, never lost."""
    global _OBLIGATIONS
    _OBLIGATIONS = obligations
    nproc = nproc or int(os.environ.get('VERIF_NPROC', '16'))
    if nproc == 1:
        return [_run_one(i) for i in range(len(obligations))]
    ctxm = mp.get_context('fork')
    pending = list(range(len(obligations)))
    running = {}
    results = [None] * len(obligations)
    while pending or running:
        while pending and len(running) < nproc:
            i = pending.pop(0)
            parent, child = ctxm.Pipe(duplex=False)
            p = ctxm.Process(target=_child, args=(i, child))
            p.start()
            child.close()
            running[i] = (p, parent, time.time())
        time.sleep(0.02)
        for i in list(running):
            p, conn, t0 = running[i]
            ob = obligations[i]
            got = None
            if conn.poll():
                try:
                    got = conn.recv()
                except EOFError:
                    got = None
                p.join(5)
                if got is None:
                    got = {'name': ob.name, 'bounds': ob.bounds, 'status': 'inconclusive',
                           'reason': 'worker process died (exit code %s)' % p.exitcode}
            elif not p.is_alive():
                got = {'name': ob.name, 'bounds': ob.bounds, 'status': 'inconclusive',
                       'reason': 'worker process died (exit code %s)' % p.exitcode}
            elif time.time() - t0 > ob.max_seconds * 2 + 120:
                p.kill()
                p.join(5)
                got = {'name': ob.name, 'bounds': ob.bounds, 'status': 'inconclusive',
                       'reason': 'hard wall-clock limit (%.0fs) exceeded' % (ob.max_seconds * 2 + 120)}
            if got is not None:
                results[i] = got
                conn.close()
                del running[i]
    return results


TESTS = {
    'C01': ['pydlutils/tests/test_yanny.py'], 'C02': ['pydlutils/tests/test_yanny.py'], 'C03': ['pydlutils/tests/test_yanny.py'],
    'C04': ['pydlutils/tests/test_spheregroup.py'], 'C05': ['pydlutils/tests/test_spheregroup.py'],
    'C06': ['pydlutils/tests/test_sdss.py', 'photoop/tests/test_photoop.py'], 'C07': ['pydlutils/tests/test_sdss.py'],
    'C08': ['pydlutils/tests/test_bspline.py'], 'C09': ['pydlutils/tests/test_bspline.py'], 'C10': ['pydlutils/tests/test_bspline.py', 'pydlutils/tests/test_math.py'],
    'C11': ['pydlspec2d/tests/test_spec2d.py'], 'C12': ['pydlutils/tests/test_mangle.py'], 'C13': ['pydlutils/tests/test_trace.py', 'goddard/tests/test_goddard.py'],
    'C14': ['tests/test_pydl.py'], 'C15': ['pydlspec2d/tests/test_spec1d.py'], 'C16': ['pydlspec2d/tests/test_spec1d.py'],
    'C17': ['pydlutils/tests/test_math.py', 'pydlutils/tests/test_image.py', 'pydlspec2d/tests/test_spec2d.py'],
    'C19': ['goddard/tests/test_goddard.py', 'photoop/tests/test_sdssio.py', 'pydlspec2d/tests/test_spec2d.py'],
    'C20': ['photoop/tests/test_window.py', 'pydlspec2d/tests/test_spec1d.py'],
}


def start_translation_validation(pid, tier):
    """the repository's own tests, run against the INSTRUMENTED modules (concrete mode): the loader's
    rewrites must be the identity on concrete values.  quick: the test files of the modules this
    property touches; thorough: the whole suite.  Returns a Popen; collect with finish_tv()."""
    import tempfile
    targets = [os.path.join(REPO, 'pydl', t) for t in TESTS.get(pid, [])] if tier == 'quick' else [os.path.join(REPO, 'pydl')]
    targets = [t for t in targets if os.path.exists(t)]
    if not targets:
        return None
    out = tempfile.NamedTemporaryFile(prefix='tv_%s_' % pid, suffix='.xml', delete=False, dir=os.environ.get('TMPDIR', '/tmp'))
    out.close()
    env = dict(os.environ)
    env['PYTHONPATH'] = VERIF
    cmd = [sys.executable, '-m', 'pytest', '-q', '-p', 'no:cacheprovider', '-p', 'pathsym.pytest_plugin', '--junitxml=' + out.name] + targets
    p = subprocess.Popen(cmd, cwd=REPO, env=env, stdout=subprocess.DEVNULL, stderr=subprocess.DEVNULL)
    p._xml = out.name
    return p


def finish_tv(p):
    if p is None:
        return {'tests_passed': 0, 'tests_failed': 0, 'note': 'no test files for this property'}
    try:
        p.wait(timeout=900)
    except subprocess.TimeoutExpired:
        p.kill()
        return {'tests_passed': 0, 'tests_failed': -1, 'note': 'timeout'}
    import xml.etree.ElementTree as ET
    try:
        root = ET.parse(p._xml).getroot()
        ts = root if root.tag == 'testsuite' else root.find('testsuite')
        tot, fail, err, skip = (int(ts.get(k, 0)) for k in ('tests', 'failures', 'errors', 'skipped'))
        failed = [tc.get('classname', '') + '::' + tc.get('name', '') for tc in ts.iter('testcase')
                  if tc.find('failure') is not None or tc.find('error') is not None]
    except Exception as e:
        return {'tests_passed': 0, 'tests_failed': -1, 'note': 'no junit output: %s' % e}
    finally:
        try:
            os.unlink(p._xml)
        except OSError:
            pass
    return {'tests_passed': tot - fail - err - skip, 'tests_failed': fail + err, 'failed': failed[:10]}


# ------------------------------------------------------------------------------------------
def load_known():
    fn = os.path.join(VERIF, 'known_findings.json')
    if not os.path.exists(fn):
        return []
    with open(fn) as f:
        return json.load(f).get('findings', [])


def match_known(pid, label, known):
    for k in known:
        if k.get('property') != pid or k.get('status') != 'known':
            continue
        if re.search(k['label_regex'], label):
            return k
    return None


def replay_in_fresh_process(pid, path):
    """re-run a stored counterexample against the uninstrumented pydl in a new interpreter."""
    cmd = [sys.executable, '-m', 'harness.replay', pid, path]
    env = dict(os.environ)
    env['PYTHONPATH'] = VERIF + os.pathsep + REPO
    env.pop('PATHSYM_ACTIVE', None)
    p = subprocess.run(cmd, cwd=VERIF, env=env, capture_output=True, text=True, timeout=600)
    out = (p.stdout or '') + (p.stderr or '')
    return p.returncode, out


def finish(pid, tier, seed, results, t0, extra, replayer_available=True):
    """evidence + verdict.  results: list of obligation result dicts."""
    known = load_known()
    os.makedirs(os.path.join(VERIF, 'evidence'), exist_ok=True)
    rdir = os.path.join(VERIF, 'replays', pid)
    os.makedirs(rdir, exist_ok=True)
    lines = []
    exit_code = EXIT_OK
    n_viol = 0
    known_hits = {}
    inconclusive = [r for r in results if r['status'] == 'inconclusive']
    errors = [r for r in results if r['status'] == 'error']
    seen = set()
    pending = []
    for r in results:
        for k, v in enumerate(r.get('violations', [])):
            label = v['label']
            rec = {'property': pid, 'obligation': r['name'], 'label': label, 'inputs': v['inputs'],
                   'detail': v.get('detail')}
            safe = re.sub(r'[^A-Za-z0-9_.-]+', '_', r['name'])[:80]
            path = os.path.join(rdir, '%s.%d.json' % (safe, k))
            with open(path, 'w') as f:
                json.dump(rec, f, indent=1, default=str)
            pending.append((r, label, path))
    from concurrent.futures import ThreadPoolExecutor
    with ThreadPoolExecutor(max_workers=int(os.environ.get('VERIF_NPROC', '16'))) as tp:
        outcomes = list(tp.map(lambda t: replay_in_fresh_process(pid, t[2]), pending))
    for (r, label, path), (rc, out) in zip(pending, outcomes):
        if rc == 10:      # reproduced
            kf = match_known(pid, label, known)
            if kf is not None:
                known_hits.setdefault(kf['id'], [kf, 0])[1] += 1
                continue
            n_viol += 1
            key = (label,)
            if key not in seen:
                seen.add(key)
                lines.append('VIOLATION property=%s replay=%s   (%s: %s)' % (pid, path, r['name'], label))
            exit_code = EXIT_VIOLATION
        else:
            lines.append('HARNESS-ERROR property=%s counterexample did not reproduce on the real code: %s %s [%s]\n%s'
                         % (pid, r['name'], label, path, out[-800:]))
            if exit_code == EXIT_OK:
                exit_code = EXIT_HARNESS
    for kid, (kf, n) in known_hits.items():
        lines.append('KNOWN-FINDING: property=%s %s (%s; %d counterexample(s) reproduced)' % (pid, kf['what'], kid, n))
    for r in errors:
        lines.append('HARNESS-ERROR property=%s obligation=%s %s\n%s' % (pid, r['name'], r.get('reason'), r.get('trace', '')))
        if exit_code in (EXIT_OK,):
            exit_code = EXIT_HARNESS
    for r in inconclusive:
        lines.append('INCONCLUSIVE property=%s obligation=%s %s' % (pid, r['name'], r.get('reason')))
        if exit_code == EXIT_OK:
            exit_code = EXIT_INCONCLUSIVE
    paths = sum(r.get('paths', 0) for r in results)
    decisions = sum(r.get('decisions', 0) for r in results)
    queries = sum(r.get('queries', 0) for r in results)
    requires = sum(r.get('requires', 0) for r in results)
    samples = []
    for r in results[:6]:
        samples.append({'obligation': r['name'], 'bounds': r.get('bounds'), 'paths': r.get('paths'),
                        'assertions': r.get('require_labels'), 'sample': (r.get('samples') or [None])[0]})
    ev = {
        'property_id': pid, 'tier': tier, 'seed': seed, 'level': 'model_checking',
        'coverage': {
            'states': max(paths, 0), 'transitions': max(decisions, 0),
            'traces_validated_against_impl': int(extra.get('traces_validated', 0)),
            'samples': samples,
            'obligations': len(results),
            'discharged': len([r for r in results if r['status'] == 'ok' and not r.get('violations')]),
            'solver_queries': queries, 'solver_s': round(sum(r.get('solver_s', 0) for r in results), 3),
            'assertions_checked': requires,
            'paths_cut_nonfinite': sum(r.get('cut', 0) for r in results),
            'explanation': 'states = feasible paths of the real (instrumented) pydl code explored by the '
                           'per-path symbolic executor; transitions = symbolic branch decisions; each '
                           'assertion is discharged by z3 as (path condition and not property) unsat',
            'per_obligation': [{k: r.get(k) for k in ('name', 'bounds', 'status', 'paths', 'completed', 'aborted',
                                                      'cut', 'cut_reasons', 'decisions', 'forks', 'queries',
                                                      'solver_s', 'requires', 'wall_s', 'reason', 'notes',
                                                      'twin_reached')} for r in results],
        },
        'assumptions': extra.get('assumptions', []),
        'wall_s': round(time.time() - t0, 3),
        'violations': n_viol,
    }
    for k in ('functions_encoded', 'stubs', 'bounds', 'outside_bounds', 'engine', 'source_sha256',
              'known_findings_reported', 'translation_validation', 'second_solver', 'selftest'):
        if k in extra:
            ev['coverage'][k] = extra[k]
    ev['coverage']['known_findings_reported'] = sorted(known_hits)
    if ev['coverage']['states'] < 1:
        ev['coverage']['states'] = 1
    if ev['coverage']['transitions'] < 1:
        ev['coverage']['transitions'] = 1
    with open(os.path.join(VERIF, 'evidence', '%s.json' % pid), 'w') as f:
        json.dump(ev, f, indent=1, default=str)
    for l in lines:
        print(l)
    slow = sorted(results, key=lambda r: -r.get('wall_s', 0))[:3]
    print('slowest: ' + '; '.join('%s %.1fs/%d paths' % (r['name'], r.get('wall_s', 0), r.get('paths', 0)) for r in slow))
    print('%s tier=%s obligations=%d paths=%d decisions=%d solver_queries=%d assertions=%d wall=%.1fs exit=%d'
          % (pid, tier, len(results), paths, decisions, queries, requires, time.time() - t0, exit_code))
    return exit_code
