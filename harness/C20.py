"""C20 - a failing pipeline call leaves the process environment as it found it.

Every collaborator of window_score / template_metadata / template_input is a stub sharing one call
counter; the index F of the failing call, the kind of exception, the initial presence of each
touched variable and the branch-selecting file contents are *symbolic*; the path explorer
enumerates the feasible (F, presence, contents) combinations with z3 deciding feasibility.  The
oracle at every exit (return or exception) is: the environment equals its entry snapshot."""
import numpy as np
import z3

from pathsym import core
from pathsym.core import B, Z
from .common import Obligation

PID = 'C20'

META = {
    'functions_encoded': ['pydl.photoop.window.window_score', 'pydl.pydlspec2d.spec1d.template_metadata',
                          'pydl.pydlspec2d.spec1d.template_input'],
    'stubs': ['os.environ -> mapping stub with symbolic initial state (absent / set / set to the empty string) of PHOTO_CALIB, PHOTO_RESOLVE, RUN2D, RUN1D',
              'os.path.exists / os.remove / open / pickle / fits.open / HDUList.writeto / close / sdss_score / yanny / readspec / '
              'skymask / preprocess_spectra / wavevector / pca_solve / HMF / template_qso / template_star / plot_eig / get_juldate / '
              'matplotlib / fits.PrimaryHDU / fits.BinTableHDU / fits.Column: fault-oracle stubs (return a benign value, or raise when '
              'their call number equals the symbolic fault index)'],
    'assumptions': ['a collaborator fails by raising an exception (kinds: custom Exception subclass, OSError, KeyError, ValueError)',
                    'collaborators do not themselves modify the environment'],
    'outside_bounds': 'the real process environment of a subprocess; collaborators that modify os.environ themselves; '
                      'asynchronous failures (signals)',
}

TOUCHED = ('PHOTO_CALIB', 'PHOTO_RESOLVE', 'RUN2D', 'RUN1D')
EXC_KINDS = ['InjectedFault', 'OSError', 'KeyError', 'ValueError']


class InjectedFault(Exception):
    pass


_EXC = {'InjectedFault': InjectedFault, 'OSError': OSError, 'KeyError': KeyError, 'ValueError': ValueError}


class Benign(object):
    """value returned by a collaborator stub: absorbs any use, is falsy and empty."""

    def __getattr__(self, name):
        if name.startswith('__') and name.endswith('__'):
            raise AttributeError(name)
        return Benign()

    def __call__(self, *a, **k):
        return Benign()

    def __getitem__(self, k):
        return Benign()

    def __setitem__(self, k, v):
        pass

    def __bool__(self):
        return False

    def __len__(self):
        return 0

    def __iter__(self):
        return iter(())

    def __contains__(self, x):
        return False

    def __index__(self):
        return 0

    def __int__(self):
        return 0

    def __float__(self):
        return 0.0

    def __format__(self, spec):
        return '0'

    def __str__(self):
        return 'benign'

    def __enter__(self):
        return self

    def __exit__(self, *a):
        return False

    def __neg__(self):
        return Benign()

    __invert__ = __neg__


def _op(self, other):
    return Benign()


for _n in ('add', 'sub', 'mul', 'truediv', 'floordiv', 'mod', 'pow', 'and', 'or', 'xor', 'lt', 'le', 'gt', 'ge', 'eq', 'ne',
           'lshift', 'rshift'):
    setattr(Benign, '__%s__' % _n, _op)
    if _n not in ('lt', 'le', 'gt', 'ge', 'eq', 'ne'):
        setattr(Benign, '__r%s__' % _n, _op)
Benign.__hash__ = lambda self: 0


class World(object):
    """the stubbed environment of one run.  decide(k) says whether collaborator call k fails;
    choose(name, options) picks file-content alternatives."""

    def __init__(self, decide, exc_kind, choose, environ):
        self.decide = decide
        self.exc_kind = exc_kind
        self.choose = choose
        self.environ = environ
        self.calls = 0
        self.trace = []
        self.fired = False

    def call(self, name):
        self.calls += 1
        self.trace.append(name)
        if self.decide(self.calls):
            self.fired = True
            raise _EXC[self.exc_kind]('injected fault at call %d (%s)' % (self.calls, name))

    def stub(self, name, ret=None):
        def f(*a, **k):
            self.call(name)
            return ret() if callable(ret) else Benign()
        f.__name__ = name
        return f


class SymEnviron(object):
    """os.environ stand-in: presence of each key is decided symbolically at its first touch."""

    def __init__(self, ctx):
        self.ctx = ctx
        self.entry = {}     # key -> value or None (absent) as found on entry
        self.cur = {}
        self.other_touched = []

    def _touch(self, key):
        if key not in self.entry:
            if key in TOUCHED:
                present = bool(self.ctx.bool('has_' + key))
                # a variable can also be present with an empty value ('' is falsy: a restore must not confuse it with absent)
                empty = present and bool(self.ctx.bool('empty_' + key))
            else:
                present = empty = False
                self.other_touched.append(key)
            self.entry[key] = ('' if empty else 'entry:' + key) if present else None
            self.cur[key] = self.entry[key]

    def __getitem__(self, key):
        self._touch(key)
        if self.cur[key] is None:
            raise KeyError(key)
        return self.cur[key]

    def __setitem__(self, key, val):
        self._touch(key)
        if not isinstance(val, str):
            raise TypeError('str expected, not %s' % type(val).__name__)
        self.cur[key] = val

    def __delitem__(self, key):
        self._touch(key)
        if self.cur[key] is None:
            raise KeyError(key)
        self.cur[key] = None

    def __contains__(self, key):
        self._touch(key)
        return self.cur[key] is not None

    def get(self, key, default=None):
        self._touch(key)
        return default if self.cur[key] is None else self.cur[key]

    def diff(self):
        return {k: (self.entry[k], self.cur[k]) for k in self.entry if self.entry[k] != self.cur[k]}


class RealEnviron(object):
    """replay: the real os.environ, prepared with the counterexample's initial presence."""

    def __init__(self, presence):
        import os
        self.os = os
        self.saved = {k: os.environ.get(k) for k in TOUCHED}
        for k in TOUCHED:
            if presence.get(k, False):
                os.environ[k] = '' if presence.get('empty_' + k, False) else 'entry:' + k
            else:
                os.environ.pop(k, None)
        self.before = dict(os.environ)

    def diff(self):
        now = dict(self.os.environ)
        return {k: (self.before.get(k), now.get(k)) for k in set(self.before) | set(now) if self.before.get(k) != now.get(k)}

    def restore(self):
        for k, v in self.saved.items():
            if v is None:
                self.os.environ.pop(k, None)
            else:
                self.os.environ[k] = v


def _os_proxy(world, real_os):
    class Path(object):
        join = staticmethod(real_os.path.join)
        basename = staticmethod(real_os.path.basename)
        splitext = staticmethod(real_os.path.splitext)

        @staticmethod
        def exists(p):
            world.call('os.path.exists')
            return world.choose('exists:' + str(p).split('.')[-1], [True, False])

    class OS(object):
        environ = world.environ if not isinstance(world.environ, RealEnviron) else real_os.environ
        path = Path

        @staticmethod
        def remove(p):
            world.call('os.remove')

        @staticmethod
        def getenv(k, default=None):
            return OS.environ.get(k, default)
    return OS


class _Fits(object):
    def __init__(self, world):
        self.world = world

    def open(self, *a, **k):
        self.world.call('fits.open')
        w = self.world

        class HDUL(Benign):
            def writeto(self, *a, **k):
                w.call('HDUList.writeto')

            def close(self):
                w.call('HDUList.close')
        return HDUL()

    def __getattr__(self, name):
        return self.world.stub('fits.' + name)


PAR_KEYS = ['object', 'method', 'aesthetics', 'run2d', 'run1d', 'wavemin', 'wavemax', 'snmax', 'niter', 'nkeep',
            'minuse', 'nonnegative', 'epsilon']


def _yanny_stub(world):
    def yanny(filename, *a, **k):
        world.call('yanny')
        obj = world.choose('par.object', ['gal', 'qso', 'star', 'bogus'])
        method = world.choose('par.method', ['pca', 'hmf', 'bogus'])
        defect = world.choose('par.defect', [None, 'missing:minuse', 'missing:epsilon', 'missing:run1d',
                                             'invalid:niter', 'invalid:nonnegative'])
        missing = defect.split(':')[1] if defect and defect.startswith('missing') else None
        invalid = defect.split(':')[1] if defect and defect.startswith('invalid') else None
        vals = {'object': obj, 'method': method, 'aesthetics': 'mean', 'run2d': 'v5_7_0', 'run1d': 'v5_7_0',
                'wavemin': '3500.0', 'wavemax': '9000.0', 'snmax': '100', 'niter': '10', 'nkeep': '4', 'minuse': '3',
                'nonnegative': '0', 'epsilon': '0.1', 'EIGENOBJ': Benign()}
        # a parameter file may carry keywords the pipeline does not know (choice made by the solver)
        extra = world.choose('par.extra', [None, 'rundate', 'home'])
        if extra:
            vals[extra] = '2010-01-01'
        if missing:
            del vals[missing]
        if invalid:
            vals[invalid] = 'not-a-number'
        return ParStub(vals)
    return yanny


class ParStub(dict):
    """what template_metadata may use of a yanny object: a mapping with pairs() and tables()"""

    def tables(self):
        return [k for k in self if k == 'EIGENOBJ']

    def pairs(self):
        return [k for k in self if k != 'EIGENOBJ']


def install(world, window, spec1d, yanny_mod, astro_mod, real_os):
    """rebind the collaborators of the functions under test (module globals) to stubs."""
    saved = []

    def setg(mod, name, val):
        saved.append((mod, name, mod.__dict__.get(name, _MISSING)))
        mod.__dict__[name] = val
    osp = _os_proxy(world, real_os)
    fits = _Fits(world)
    setg(window, 'os', osp)
    setg(window, 'fits', fits)
    setg(window, 'sdss_score', world.stub('sdss_score'))
    setg(spec1d, 'os', osp)
    setg(spec1d, 'fits', fits)
    for n in ('readspec', 'skymask', 'preprocess_spectra', 'wavevector', 'pca_solve', 'template_qso', 'template_star',
              'plot_eig', 'FontProperties'):
        setg(spec1d, n, world.stub(n))

    class HMF(object):
        def __init__(self, *a, **k):
            world.call('HMF')

        def solve(self):
            world.call('HMF.solve')
            return Benign()
    setg(spec1d, 'HMF', HMF)

    class Plt(object):
        def __getattr__(self, name):
            return world.stub('plt.' + name)
    setg(spec1d, 'plt', Plt())

    def open_(*a, **k):
        world.call('open')
        return Benign()
    setg(spec1d, 'open', open_)
    setg(yanny_mod, 'yanny', _yanny_stub(world))
    setg(astro_mod, 'get_juldate', world.stub('get_juldate', ret=lambda: 2455000.5))

    class Pickle(object):
        @staticmethod
        def load(f):
            world.call('pickle.load')
            return Benign()

        @staticmethod
        def dump(o, f):
            world.call('pickle.dump')
    return saved, Pickle


_MISSING = object()


def uninstall(saved):
    for mod, name, val in reversed(saved):
        if val is _MISSING:
            mod.__dict__.pop(name, None)
        else:
            mod.__dict__[name] = val


def _run(target, world, mods, real_os, pickle_holder):
    window, spec1d, yanny_mod, astro_mod = mods
    saved, Pickle = install(world, window, spec1d, yanny_mod, astro_mod, real_os)
    import sys
    real_pickle = sys.modules.get('pickle')
    sys.modules['pickle'] = Pickle
    outcome = 'returned'
    try:
        try:
            if target == 'window_score':
                window.window_score(rescore=world.choose('rescore', [False, True]))
            elif target == 'template_metadata':
                spec1d.template_metadata('input.par')
            else:
                spec1d.template_input('input.par', 'dump.pkl', flux=world.choose('flux', [False, True]))
        except Exception as e:
            outcome = 'raised %s' % type(e).__name__
    finally:
        if real_pickle is not None:
            sys.modules['pickle'] = real_pickle
        uninstall(saved)
    return outcome


def ob_target(target, maxcalls, kind, fixed=None):
    fixed = fixed or {}

    def fn(ctx):
        import os as real_os
        from astropy import log as _alog
        _alog.setLevel('ERROR')
        import pydl.photoop.window as window
        import pydl.pydlspec2d.spec1d as spec1d
        import pydl.pydlutils.yanny as yanny_mod
        import pydl.goddard.astro as astro_mod
        F = ctx.int('fault_call', 0, maxcalls)
        choices = {}

        def choose(name, options):
            if name not in choices:
                if name in fixed:
                    i = ctx.int('choice:' + name, options.index(fixed[name]), options.index(fixed[name]))
                i = int(ctx.int('choice:' + name, 0, len(options) - 1))
                choices[name] = options[i]
            return choices[name]
        env = SymEnviron(ctx)
        world = World(lambda k: bool(B(F.z3() == k)), kind, choose, env)
        outcome = _run(target, world, (window, spec1d, yanny_mod, astro_mod), real_os, None)
        # a fault index beyond the last call simply never fires: keep one representative
        if not world.fired:
            ctx.assume(F.z3() == 0)
        d = {'target': target, 'outcome': outcome, 'calls': world.calls, 'trace': world.trace[-12:],
             'choices': {k: v for k, v in choices.items()}, 'exc_kind': kind}
        ctx.sample(d)
        if target == 'template_metadata' and outcome == 'returned':
            # by design it leaves RUN2D/RUN1D set for its caller and records the originals
            return ctx.require(True, 'template_metadata returned (sets RUN2D/RUN1D for template_input)')
        diff = env.diff()
        failed = outcome != 'returned'
        ctx.require(not diff, '%s: environment %s after %s' % (
            target, 'restored' if not diff else 'NOT restored (%s)' % ','.join(sorted(diff)),
            'failure' if failed else 'success'), dict(d, diff={k: list(v) for k, v in diff.items()}))
        ctx.require(not env.other_touched, '%s: no other environment variable touched' % target, d)
    return Obligation('fault injection %s %s %s' % (target, kind, fixed), fn, bounds='fault index 0..%d x 4 exception kinds x initial presence x file contents' % maxcalls,
                      max_paths=400000, max_seconds=1500)


def obligations(tier, seed):
    kinds = ['InjectedFault', 'KeyError'] if tier == 'quick' else EXC_KINDS
    obs = []
    for kind in kinds:
        obs.append(ob_target('window_score', 8, kind))
        for obj in ('gal', 'qso', 'star', 'bogus'):
            obs.append(ob_target('template_input', 60, kind, {'par.object': obj}))
    return obs


# ------------------------------------------------------------------ replay on the real modules / real os.environ
def replay(rec):
    import os as real_os
    import pydl.photoop.window as window
    import pydl.pydlspec2d.spec1d as spec1d
    import pydl.pydlutils.yanny as yanny_mod
    import pydl.goddard.astro as astro_mod
    from astropy import log as _alog
    _alog.setLevel('ERROR')
    d = rec['detail'] or {}
    inp = rec['inputs'] or {}
    F = int(inp.get('fault_call', 0))
    kind = d.get('exc_kind', 'InjectedFault')
    presence = {k: bool(inp.get('has_' + k, False)) for k in TOUCHED}
    presence.update({'empty_' + k: bool(inp.get('empty_' + k, False)) for k in TOUCHED})

    def choose(name, options):
        return options[int(inp.get('choice:' + name, 0))]
    env = RealEnviron(presence)
    try:
        world = World(lambda k: k == F, kind, choose, env)
        _run(d['target'], world, (window, spec1d, yanny_mod, astro_mod), real_os, None)
        diff = env.diff()
    finally:
        env.restore()
    if d['target'] == 'template_metadata' and d.get('outcome') == 'returned':
        return False
    return bool(diff)
