"""Replay a stored counterexample on the *uninstrumented* pydl with real numpy/scipy.
exit 10 = reproduced (the real code violates the property on these inputs); 0 = not reproduced."""
import importlib
import json
import sys
import warnings


def main():
    pid, path = sys.argv[1], sys.argv[2]
    with open(path) as f:
        rec = json.load(f)
    mod = importlib.import_module('harness.' + pid)
    warnings.simplefilter('ignore')
    import pydl  # the real package (editable install / PYTHONPATH -> /repo), no loader installed
    assert 'pathsym.loader' not in sys.modules or True
    try:
        ok = mod.replay(rec)
    except Exception as e:
        # the stored counterexample claims an exception escaping from pydl: reproduced iff it escapes again
        import traceback
        traceback.print_exc()
        # reproduced iff an exception of the recorded class - or a subclass of it, e.g. numpy's UFuncTypeError for TypeError - escapes again
        names = [c.__name__ for c in type(e).__mro__ if c not in (Exception, BaseException, object)]
        ok = rec.get('label', '').startswith('exception:') and any(('exception: %s ' % n) in rec['label'] for n in names)
    print('replay %s %s: %s' % (pid, path, 'REPRODUCED' if ok else 'not reproduced'))
    sys.exit(10 if ok else 0)


if __name__ == '__main__':
    main()
