"""Replay a stored counterexample on the *uninstrumented* pydl with real numpy/scipy.
exit 10 = reproduced (the real code violates the property on these inputs); 0 = not reproduced."""
import importlib
import json
import sys
import warnings


def main():
    pid, path = sys.argv[1], sys.argv[2]
    with open(path) as f:
        rec = json.load(f)
    mod = importlib.import_module('harness.' + pid)
    warnings.simplefilter('ignore')
    import pydl  # the real package (editable install / PYTHONPATH -> /repo), no loader installed
    assert 'pathsym.loader' not in sys.modules or True
    ok = mod.replay(rec)
    print('replay %s %s: %s' % (pid, path, 'REPRODUCED' if ok else 'not reproduced'))
    sys.exit(10 if ok else 0)


if __name__ == '__main__':
    main()
