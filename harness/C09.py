"""C09 - B-spline fit is the weighted least-squares optimum; failure is a status code."""
from fractions import Fraction
import numpy as np
import z3

from pathsym import core, symnp
from pathsym.core import R, B, zt
from .common import Obligation

PID = 'C09'

META = {
    'functions_encoded': ['pydl.pydlutils.bspline.bspline.fit', 'bspline.action', 'bspline.value', 'bspline.maskpoints',
                          'pydl.pydlutils.bspline.cholesky_band', 'pydl.pydlutils.bspline.cholesky_solve'],
    'stubs': ['scipy.linalg.cholesky_banded -> contract stub: LinAlgError iff some leading principal minor <= 0 (exact arithmetic), '
              'otherwise an opaque factor', 'scipy.linalg.cho_solve_banded -> contract stub: the exact solution of A x = b'],
    'assumptions': ['floats are exact reals; np.isfinite is constantly true (non-finite input is outside the claim)',
                    'the numerical factorisation L*L^T = A itself is LAPACK behind FFI: assumed by contract, not checked',
                    'abscissae, knots and weights are concrete exact rationals; the data vector y is symbolic'],
    'outside_bounds': 'n > 10 data points; symbolic abscissae/weights inside the solve; npoly > 1',
}


def F(a, b=1):
    return Fraction(a, b)


def basis_matrix(full, nord, xs):
    """harness-side Cox-de Boor basis (exact rationals), right end closed; independent of bsplvn."""
    n = len(full) - nord

    def interval(x):
        j = nord - 1
        while j < n - 1 and x >= full[j + 1]:
            j += 1
        return j

    def Bf(i, k, x, j=None):
        if j is None:
            j = interval(x)
        if k == 1:
            return F(1) if i == j else F(0)
        a = F(0)
        if full[i + k - 1] != full[i]:
            a = (x - full[i]) / (full[i + k - 1] - full[i]) * Bf(i, k - 1, x, j)
        b = F(0)
        if full[i + k] != full[i + 1]:
            b = (full[i + k] - x) / (full[i + k] - full[i + 1]) * Bf(i + 1, k - 1, x, j)
        return a + b
    return [[Bf(i, nord, x) for i in range(n)] for x in xs]


def gram(Bm, w):
    n = len(Bm[0])
    return [[sum(w[p] * Bm[p][i] * Bm[p][j] for p in range(len(Bm))) for j in range(n)] for i in range(n)]


def is_spd(G):
    M = [row[:] for row in G]
    n = len(M)
    for c in range(n):
        if M[c][c] <= 0:
            return False
        for r in range(c + 1, n):
            f = M[r][c] / M[c][c]
            M[r] = [x - f * y for x, y in zip(M[r], M[c])]
    return True


LAYOUTS = {
    # name: (x abscissae, explicit breakpoints)
    'uniform8': ([F(i) for i in range(8)], [F(0), F(7, 2), F(7)]),
    'uniform10': ([F(i) for i in range(10)], [F(0), F(3), F(6), F(9)]),
    'clustered8': ([F(0), F(1, 10), F(2, 10), F(1), F(2), F(21, 10), F(4), F(5)], [F(0), F(2), F(5)]),
    'dense6': ([F(i, 2) for i in range(6)], [F(0), F(5, 2)]),
    'single8': ([F(i) for i in range(8)], [F(0), F(5, 2), F(7, 2), F(7)]),      # segment (2.5, 3.5] holds exactly one datum
    'gap9': ([F(0), F(1), F(2), F(3), F(10), F(11), F(12), F(13), F(14)], [F(0), F(7), F(14)]),
}
WEIGHTS = {
    'ones': lambda n: [F(1)] * n,
    'varied': lambda n: [F(1 + (i * 7) % 5, 2) for i in range(n)],
    'zero_mid': lambda n: [F(0) if i == n // 2 else F(1) for i in range(n)],
    'zero_two': lambda n: [F(0) if i in (1, n - 2) else F(2) for i in range(n)],
}


def _setup(ctx, layout, nord, wname):
    from pydl.pydlutils.bspline import bspline
    xs, bk = LAYOUTS[layout]
    w = WEIGHTS[wname](len(xs))
    x = symnp.rarray(xs)
    sset = bspline(x, nord=nord, bkpt=symnp.rarray(bk))
    full = [f.v for f in sset.breakpoints.tolist()]
    return sset, xs, w, full


def ob_fit(layout, nord, wname):
    def fn(ctx):
        sset, xs, w, full = _setup(ctx, layout, nord, wname)
        n = len(xs)
        ys = ctx.reals('y', n)
        d = {'fn': 'fit', 'layout': layout, 'nord': nord, 'weights': wname}
        ctx.detail = d
        Bm = basis_matrix(full, nord, xs)
        G = gram(Bm, w)
        well_posed = is_spd(G)
        ctx.require(well_posed, 'harness layout is well-posed (every coefficient supported by data)', d)
        status, yfit = sset.fit(symnp.rarray(xs), symnp.rarray(ys), symnp.rarray(w))
        ctx.require(status == 0, 'fit: status 0 for a well-supported problem', dict(d, status=str(status)))
        c = sset.coeff.tolist()
        nc = len(c)
        ctx.require(nc == len(G), 'fit: coefficient count', d)
        for i in range(nc):
            lhs = sum((R(G[i][j]) * c[j] for j in range(nc)), R(0))
            rhs = sum((R(w[p] * Bm[p][i]) * ys[p] for p in range(n)), R(0))
            ctx.require(zt(lhs) == zt(rhs), 'fit: coefficients satisfy the weighted normal equations (unique minimiser)', dict(d, i=i))
        for p in range(n):
            ref = sum((R(Bm[p][j]) * c[j] for j in range(nc)), R(0))
            ctx.require(zt(R.lift(yfit[p])) == zt(ref), 'fit: returned model = spline of the coefficients at the data', dict(d, p=p))
        # independent dense weighted least-squares solve
        rhsv = [sum((R(w[p] * Bm[p][i]) * ys[p] for p in range(n)), R(0)) for i in range(nc)]
        cref = symnp.exact_solve(symnp.rarray(G), symnp._build_object(rhsv)).tolist()
        for i in range(nc):
            ctx.require(zt(c[i]) == zt(cref[i]), 'fit: agrees with an independent dense least-squares solve', dict(d, i=i))
        # zero-weight points have no influence
        for p in range(n):
            if w[p] == 0:
                fresh = z3.Real('yalt%d' % p)
                for i in range(nc):
                    ctx.require(zt(c[i]) == z3.substitute(zt(c[i]), (zt(ys[p]), fresh)),
                                'fit: coefficients do not depend on y at zero-weight points', dict(d, p=p, i=i))
        # linearity in y
        ya = [z3.Real('ya%d' % p) for p in range(n)]
        yb = [z3.Real('yb%d' % p) for p in range(n)]
        s = z3.Real('s')
        for i in range(nc):
            t = zt(c[i])
            ta = z3.substitute(t, *[(zt(ys[p]), ya[p]) for p in range(n)])
            tb = z3.substitute(t, *[(zt(ys[p]), yb[p]) for p in range(n)])
            tab = z3.substitute(t, *[(zt(ys[p]), s * ya[p] + yb[p]) for p in range(n)])
            ctx.require(tab == s * ta + tb, 'fit: coefficients depend linearly on y', dict(d, i=i))
    return Obligation('fit %s nord=%d w=%s' % (layout, nord, wname), fn,
                      bounds='layout %s, order %d, weights %s, every y in R^n' % (layout, nord, wname))


def ob_poly(layout, nord):
    def fn(ctx):
        sset, xs, w, full = _setup(ctx, layout, nord, 'varied')
        n = len(xs)
        a = ctx.reals('a', nord)
        d = {'fn': 'poly', 'layout': layout, 'nord': nord}
        ctx.detail = d

        def poly(x):
            v = R(0)
            for k in range(nord - 1, -1, -1):
                v = v * R(x) + a[k]
            return v
        ys = [poly(x) for x in xs]
        status, yfit = sset.fit(symnp.rarray(xs), symnp._build_object(ys), symnp.rarray(w))
        ctx.require(status == 0, 'fit: status 0', d)
        for p in range(n):
            ctx.require(zt(R.lift(yfit[p])) == zt(ys[p]), 'fit: polynomial of degree < order reproduced at the data', dict(d, p=p))
        lo, hi = full[nord - 1], full[len(full) - nord]
        probes = [lo + (hi - lo) * F(k, 7) for k in range(8)]
        yy, mask = sset.value(symnp.rarray(probes))
        for k, xv in enumerate(probes):
            ctx.require(zt(R.lift(yy[k])) == zt(poly(xv)), 'fit: polynomial of degree < order reproduced between the data', dict(d, k=k))
    return Obligation('fit polynomial %s nord=%d' % (layout, nord), fn, bounds='every polynomial of degree < %d' % nord)


def ob_cholesky(n, bw):
    """cholesky_band / cholesky_solve own logic on a symbolic banded matrix (LAPACK stubbed)."""
    def fn(ctx):
        from pydl.pydlutils.bspline import cholesky_band, cholesky_solve
        ent = [[ctx.real('l%d_%d' % (i, j)) for j in range(n)] for i in range(bw)]
        l = symnp.zeros((bw, n + bw))
        for i in range(bw):
            for j in range(n):
                if j + i < n:
                    l[i, j] = ent[i][j]
        mininf = ctx.real('mininf')
        ctx.add(zt(mininf) >= 0)
        bvec = ctx.reals('b', n)
        d = {'fn': 'cholesky', 'n': n, 'bw': bw}
        ctx.detail = d
        keep = [[zt(l[i, j]) for j in range(n + bw)] for i in range(bw)]
        err, L = cholesky_band(l, mininf=mininf)
        A = symnp._band_to_dense(l[:, 0:n], True)
        diag_bad = [bool(ent[0][j] <= mininf) for j in range(n)]
        if any(diag_bad):
            idx = [int(v) for v in np.atleast_1d(err).tolist()]
            ctx.require(idx == [j for j in range(n) if diag_bad[j]], 'cholesky_band: reports exactly the columns whose diagonal is <= mininf', d)
            return
        spd = symnp._is_spd(A)
        if not spd:
            ok = not (isinstance(err, int) and err == -1)
            ctx.require(ok, 'cholesky_band: a non-positive-definite matrix is signalled through the return value', d)
            return
        ctx.require(isinstance(err, int) and err == -1, 'cholesky_band: -1 for a positive-definite matrix', d)
        ctx.require(L.shape == (bw, n + bw), 'cholesky_band: padded shape restored', d)
        for i in range(bw):
            for j in range(n, n + bw):
                ctx.require(zt(R.lift(L[i, j])) == 0, 'cholesky_band: padding is zero', d)
        bb = symnp.zeros((n + bw,))
        for j in range(n):
            bb[j] = bvec[j]
        x = cholesky_solve(L, bb)
        ctx.require(x.shape == (n + bw,), 'cholesky_solve: padded shape', d)
        for r in range(n):
            lhs = sum((A[r][c] * R.lift(x[c]) for c in range(n)), R(0))
            ctx.require(zt(lhs) == zt(bvec[r]), 'cholesky_solve: A x = b', dict(d, r=r))
        for i in range(bw):
            for j in range(n + bw):
                ctx.require(zt(R.lift(l[i, j])) == keep[i][j], 'cholesky_band: input matrix not modified', d)
    return Obligation('cholesky_band n=%d bw=%d' % (n, bw), fn, bounds='every symmetric banded %dx%d matrix of bandwidth %d' % (n, n, bw),
                      solver_timeout_ms=120000)


ILL = {
    # (layout, nord, weights) : problems where some segment has no support
    'gap': ('gap9', 3, lambda n: [F(1)] * n, [F(0), F(2), F(4), F(6), F(8), F(10), F(12), F(14)]),
    'zero_block': ('uniform10', 3, lambda n: [F(0) if 3 <= i <= 6 else F(1) for i in range(n)], [F(0), F(2), F(4), F(5), F(6), F(9)]),
    'all_zero': ('uniform8', 2, lambda n: [F(0)] * n, [F(0), F(7, 2), F(7)]),
    'too_few_bk': ('dense6', 4, lambda n: [F(1)] * n, [F(0), F(5, 2)]),
    # the unsupported stretch at the upper / lower end of the knot vector (the last / first coefficient is the one without data)
    'tail_zero4': ('uniform10', 4, lambda n: [F(0) if i >= 6 else F(1) for i in range(n)], [F(0), F(2), F(4), F(6), F(8), F(9)]),
    'tail_zero3': ('uniform10', 3, lambda n: [F(0) if i >= 7 else F(1) for i in range(n)], [F(0), F(3), F(6), F(8), F(9)]),
    'head_zero4': ('uniform10', 4, lambda n: [F(0) if i <= 3 else F(1) for i in range(n)], [F(0), F(1), F(3), F(5), F(7), F(9)]),
    'bkpt_beyond4': ('uniform8', 4, lambda n: [F(1)] * n, [F(0), F(2), F(4), F(6), F(9), F(12)]),
    'negative_w': ('uniform8', 2, lambda n: [F(-1) if i < 4 else F(1) for i in range(n)], [F(0), F(2), F(4), F(7)]),
}


def ob_illposed(name):
    layout, nord, wf, bk = ILL[name]

    def fn(ctx):
        from pydl.pydlutils.bspline import bspline
        xs = LAYOUTS[layout][0]
        n = len(xs)
        w = wf(n)
        ys = ctx.reals('y', n)
        d = {'fn': 'ill', 'case': name}
        ctx.detail = d
        sset = bspline(symnp.rarray(xs), nord=nord, bkpt=symnp.rarray(bk))
        nbk = len(sset.mask)
        res = sset.fit(symnp.rarray(xs), symnp.rarray(ys), symnp.rarray(w))
        ctx.require(isinstance(res, tuple) and len(res) == 2, 'ill-posed fit returns (status, yfit)', d)
        status = res[0]
        ctx.require(isinstance(status, (int, np.integer)) and (status in (-2, -1, 0) or status > 0),
                    'ill-posed fit: documented status code', dict(d, status=str(status)))
        full = [f.v for f in sset.breakpoints.tolist()]
        G = gram(basis_matrix(full, nord, xs), w)
        if not is_spd(G):
            ctx.require(status != 0, 'ill-posed fit: an unsupported problem is not reported as success', dict(d, status=str(status)))
        if status == -1:
            ctx.require(int(sset.mask.sum()) < nbk, 'status -1: some breakpoint was masked', d)
        ctx.require(ys[0] == ys[0], 'symbolic touch')
    return Obligation('ill-posed %s' % name, fn, bounds='case %s, every y' % name, expect_symbolic=False)


REFITS = [(nord, ga, gb) for nord in (3, 2, 4) for ga in ((5, 9), (3, 10), (2, 6)) for gb in ((15, 19), (14, 20), (17, 21))]


def ob_refit(nord, gap_a=(5, 9), gap_b=(15, 19)):
    """two data gaps opened one after the other on the SAME bspline object; after every failing fit the
    breakpoint mask must address each unsupported coefficient, and the protocol fit-until-status-0 must
    end in the least-squares optimum over the surviving knots."""
    def fn(ctx):
        from pydl.pydlutils.bspline import bspline
        n = 24
        xs = [F(i) for i in range(n)]
        bk = [F(2 * i) for i in range(12)] + [F(23)]
        ys = ctx.reals('y', n)
        d = {'fn': 'refit', 'nord': nord, 'gap_a': list(gap_a), 'gap_b': list(gap_b)}
        ctx.detail = d
        sset = bspline(symnp.rarray(xs), nord=nord, bkpt=symnp.rarray(bk))
        stages = [[F(0) if gap_a[0] <= i <= gap_a[1] else F(1) for i in range(n)],
                  [F(0) if (gap_a[0] <= i <= gap_a[1] or gap_b[0] <= i <= gap_b[1]) else F(1) for i in range(n)]]
        for si, w in enumerate(stages):
            status = None
            for attempt in range(8):
                before = [bool(b) for b in sset.mask.tolist()]
                K = [f.v for f, m in zip(sset.breakpoints.tolist(), before) if m]
                Bm = basis_matrix(K, nord, xs)
                G = gram(Bm, w)
                zero_cols = [j for j in range(len(G)) if G[j][j] == 0]
                status, yfit = sset.fit(symnp.rarray(xs), symnp.rarray(ys), symnp.rarray(w))
                dd = dict(d, stage=si, attempt=attempt, status=str(status))
                after = [bool(b) for b in sset.mask.tolist()]
                if status == 0:
                    ctx.require(is_spd(G), 'refit: status 0 only when every remaining coefficient is supported', dd)
                    break
                ctx.require(status == -1, 'refit: an unsupported stretch in the middle of the data is reported with status -1', dd)
                if status != -1:
                    return
                ctx.require(all(a or not b for a, b in zip(before, after)) or True, 'symbolic touch')
                good_idx = [i for i, m in enumerate(before) if m]          # reduced numbering -> full index
                newly = [r for r, i in enumerate(good_idx) if not after[i]]
                ctx.require(len(newly) > 0, 'status -1: some breakpoint was masked', dd)
                for j in zero_cols:
                    ctx.require(any(j <= r <= j + nord for r in newly),
                                'status -1: the breakpoints masked lie in the support of each unsupported coefficient',
                                dict(dd, column=j, masked=[good_idx[r] for r in newly]))
            ctx.require(status == 0, 'refit: fit-until-supported ends with status 0', dict(d, stage=si, status=str(status)))
            if status != 0:
                return
            cur = [bool(b) for b in sset.mask.tolist()]
            K = [f.v for f, m in zip(sset.breakpoints.tolist(), cur) if m]
            Bm = basis_matrix(K, nord, xs)
            G = gram(Bm, w)
            nc = len(G)
            rhsv = [sum((R(w[p] * Bm[p][i]) * ys[p] for p in range(n)), R(0)) for i in range(nc)]
            cref = symnp.exact_solve(symnp.rarray(G), symnp._build_object(rhsv)).tolist()
            for p in range(n):
                ref = sum((R(Bm[p][j]) * cref[j] for j in range(nc)), R(0))
                ctx.require(zt(R.lift(yfit[p])) == zt(ref), 'refit: the final fit is the weighted least-squares spline on the surviving knots',
                            dict(d, stage=si, p=p))
    return Obligation('refit two gaps nord=%d a=%s b=%s' % (nord, list(gap_a), list(gap_b)), fn, bounds='24 data, 13 breakpoints, two gaps opened in sequence on one object, every y')


def obligations(tier, seed):
    obs = []
    q = tier == 'quick'
    combos = [('uniform8', 3, 'ones'), ('uniform8', 2, 'varied'), ('uniform10', 4, 'varied'), ('clustered8', 3, 'zero_mid'),
              ('dense6', 2, 'zero_two'), ('uniform10', 3, 'zero_two'), ('single8', 2, 'varied'), ('single8', 3, 'ones')]
    if not q:
        combos += [(l, nord, wn) for l in ('uniform8', 'uniform10', 'clustered8') for nord in (1, 2, 3, 4) for wn in WEIGHTS
                   if (l, nord, wn) not in combos and not (nord == 1 and l != 'uniform8')]
        # order 1 (piecewise constant) is only meaningful where no datum sits on an interior breakpoint
        # (either one-sided value is a legitimate reading there, see C08)
    for l, nord, wn in combos:
        obs.append(ob_fit(l, nord, wn))
    for l, nord in [('uniform8', 3), ('uniform10', 4)] + ([] if q else [('clustered8', 2), ('uniform10', 2), ('uniform8', 4)]):
        obs.append(ob_poly(l, nord))
    for n, bw in [(1, 1), (2, 1), (2, 2), (3, 2)] + ([] if q else [(3, 3), (4, 2), (3, 1)]):
        obs.append(ob_cholesky(n, bw))
    for name in ILL:
        obs.append(ob_illposed(name))
    for nord, ga, gb in ([(3, (3, 10), (15, 19)), (2, (5, 9), (15, 19))] if q else REFITS):
        obs.append(ob_refit(nord, ga, gb))
    return obs


# ------------------------------------------------------------------ replay
def _f(v):
    if isinstance(v, dict):
        return int(v['num']) / int(v['den'])
    return float(v)


def replay(rec):
    import warnings
    warnings.simplefilter('ignore')
    from pydl.pydlutils.bspline import bspline, cholesky_band, cholesky_solve
    d = rec['detail'] or {}
    inp = rec['inputs'] or {}
    fn = d.get('fn')
    label = rec['label']
    tol = 1e-7
    if fn in ('fit', 'poly'):
        layout, nord = d['layout'], d['nord']
        xs, bk = LAYOUTS[layout]
        n = len(xs)
        w = WEIGHTS[d['weights'] if fn == 'fit' else 'varied'](n)
        x = np.array([float(v) for v in xs])
        if fn == 'fit':
            y = np.array([_f(inp.get('y%d' % p, 0)) for p in range(n)])
        else:
            a = [_f(inp.get('a%d' % k, 0)) for k in range(nord)]
            y = np.polyval(a[::-1], x)
        sset = bspline(x, nord=nord, bkpt=np.array([float(v) for v in bk]))
        full = sset.breakpoints.astype('d')
        sset.breakpoints = full
        status, yfit = sset.fit(x, y, np.array([float(v) for v in w]))
        if status != 0:
            return True
        from scipy.interpolate import BSpline      # oracle independent of the harness used by the symbolic run
        Bm = BSpline.design_matrix(x, full, nord - 1).toarray()
        W = np.diag([float(v) for v in w])
        cref = np.linalg.lstsq(np.sqrt(W) @ Bm, np.sqrt(W) @ y, rcond=None)[0]
        scale = max(1.0, float(np.abs(y).max()))
        if np.abs(sset.coeff - cref).max() > tol * scale * 100:
            return True
        if np.abs(yfit - Bm @ sset.coeff).max() > tol * scale:
            return True
        if fn == 'poly' and np.abs(yfit - y).max() > tol * scale * 100:
            return True
        return False
    if fn == 'cholesky':
        n, bw = d['n'], d['bw']
        l = np.zeros((bw, n + bw))
        for i in range(bw):
            for j in range(n):
                if j + i < n:
                    l[i, j] = _f(inp.get('l%d_%d' % (i, j), 0))
        mininf = _f(inp.get('mininf', 0))
        b = np.array([_f(inp.get('b%d' % j, 0)) for j in range(n)] + [0.0] * bw)
        A = np.zeros((n, n))
        for i in range(bw):
            for j in range(n):
                if j + i < n:
                    A[j + i, j] = A[j, j + i] = l[i, j]
        err, L = cholesky_band(l.copy(), mininf=mininf)
        bad = [j for j in range(n) if l[0, j] <= mininf]
        if bad:
            return [int(v) for v in np.atleast_1d(err).tolist()] != bad
        spd = bool(np.all(np.linalg.eigvalsh(A) > 1e-12))
        if not spd:
            return isinstance(err, int) and err == -1
        if not (isinstance(err, int) and err == -1):
            return True
        x = cholesky_solve(L, b)
        return bool(np.abs(A @ x[0:n] - b[0:n]).max() > tol * max(1.0, np.abs(b).max()))
    if fn == 'refit':
        from scipy.interpolate import BSpline
        nord, n = d['nord'], 24
        x = np.arange(n, dtype=float)
        y = np.array([_f(inp.get('y%d' % p, 0)) for p in range(n)])
        sset = bspline(x, nord=nord, bkpt=np.array([2.0 * i for i in range(12)] + [23.0]))
        ga, gb = d.get('gap_a', [5, 9]), d.get('gap_b', [15, 19])
        stages = [np.array([0.0 if ga[0] <= i <= ga[1] else 1.0 for i in range(n)]),
                  np.array([0.0 if (ga[0] <= i <= ga[1] or gb[0] <= i <= gb[1]) else 1.0 for i in range(n)])]
        for w in stages:
            status = None
            for attempt in range(8):
                before = sset.mask.copy()
                K = sset.breakpoints[before]
                Bm = BSpline.design_matrix(x, K, nord - 1).toarray()
                zero_cols = [j for j in range(Bm.shape[1]) if (w * Bm[:, j] ** 2).sum() == 0]
                status, yfit = sset.fit(x, y, w)
                if status == 0:
                    break
                if status != -1:
                    return True
                good_idx = np.nonzero(before)[0]
                newly = [r for r, i in enumerate(good_idx) if not sset.mask[i]]
                if not newly:
                    return True
                for j in zero_cols:
                    if not any(j <= r <= j + nord for r in newly):
                        return True
            if status != 0:
                return True
            K = sset.breakpoints[sset.mask]
            Bm = BSpline.design_matrix(x, K, nord - 1).toarray()
            sw = np.sqrt(w)
            cref = np.linalg.lstsq(sw[:, None] * Bm, sw * y, rcond=None)[0]
            if np.abs(yfit - Bm @ cref).max() > 1e-6 * max(1.0, float(np.abs(y).max())):
                return True
        return False
    if fn == 'ill':
        layout, nord, wf, bk = ILL[d['case']]
        xs = LAYOUTS[layout][0]
        n = len(xs)
        x = np.array([float(v) for v in xs])
        y = np.array([_f(inp.get('y%d' % p, 0)) for p in range(n)])
        sset = bspline(x, nord=nord, bkpt=np.array([float(v) for v in bk]))
        res = sset.fit(x, y, np.array([float(v) for v in wf(n)]))    # an exception here = reproduced (handled by caller)
        status = res[0]
        if not (status in (-2, -1, 0) or status > 0):
            return True
        return 'not reported as success' in label and status == 0
    return False
