"""C04 - spherematch returns exactly the pairs closer than the match length (partial: the
spatial hash is replaced by a trivially complete one; the pair loop, sorting and maxmatch
bookkeeping are the real code)."""
import numpy as np
import z3

from pathsym import core, symnp
from pathsym.core import R, B, zt
from .common import Obligation

PID = 'C04'

META = {
    'functions_encoded': ['pydl.pydlutils.spheregroup.spherematch (candidate loop, sep < matchlength, argsort, maxmatch passes)'],
    'stubs': ['class chunks -> hash whose single cell holds every point of the second list (trivially complete)',
              'gcirc -> 3600*D[i][k] arcsec with D an arbitrary non-negative real matrix'],
    'assumptions': ['argsort of symbolic distances: stable order for ties'],
    'outside_bounds': 'completeness of the spatial hash (chunks.__init__/assign/getbounds/get) at the RA seam, chunk edges and poles: '
                      'NOT claimed - it rests on trigonometric inequalities no SMT theory decides; more than 3x2 points; maxmatch > 2',
}


class _StubChunks(object):
    n2 = 0

    def __init__(self, ra, dec, minSize):
        self.raOffset = 0.0
        self.chunkList = [[list(range(_StubChunks.n2))]]

    def assign(self, ra, dec, marginSize):
        pass

    def get(self, ra, dec):
        return (0, 0)


def _run(sg, n1, n2, Dfun, L, maxmatch):
    _StubChunks.n2 = n2
    saved = (sg.chunks, sg.gcirc)

    def gcirc(ra1, dec1, ra2, dec2, units=2):
        return Dfun(int(ra1), int(ra2)) * 3600
    sg.chunks, sg.gcirc = _StubChunks, gcirc
    try:
        return sg.spherematch(np.arange(n1, dtype=float), np.zeros(n1), np.arange(n2, dtype=float), np.zeros(n2),
                              L, maxmatch=maxmatch)
    finally:
        sg.chunks, sg.gcirc = saved


def ob_match(n1, n2, maxmatch):
    def fn(ctx):
        import pydl.pydlutils.spheregroup as sg
        D = [[ctx.real('d%d_%d' % (i, k)) for k in range(n2)] for i in range(n1)]
        for row in D:
            for v in row:
                ctx.add(zt(v) >= 0)
        L = ctx.real('L')
        ctx.add(zt(L) > 0)
        ctx.detail = {'fn': 'match', 'n1': n1, 'n2': n2, 'maxmatch': maxmatch}
        m1, m2, dist = _run(sg, n1, n2, lambda i, k: D[i][k], L, maxmatch)
        m1 = [int(v) for v in np.asarray(m1).tolist()]
        m2 = [int(v) for v in np.asarray(m2).tolist()]
        dist = list(dist.tolist()) if hasattr(dist, 'tolist') else list(dist)
        d = {'fn': 'match', 'n1': n1, 'n2': n2, 'maxmatch': maxmatch, 'm1': m1, 'm2': m2}
        pairs = list(zip(m1, m2))
        ctx.require(len(pairs) == len(set(pairs)), 'no pair reported twice', d)
        for (i, k), dv in zip(pairs, dist):
            ctx.require(zt(D[i][k]) < zt(L), 'reported pair is closer than the match length', d)
            ctx.require(zt(R.lift(dv)) == zt(D[i][k]), 'reported distance is the true separation', d)
        for a, b in zip(dist, dist[1:]):
            ctx.require(zt(R.lift(a)) <= zt(R.lift(b)), 'distances non-decreasing', d)
        if maxmatch == 0:
            for i in range(n1):
                for k in range(n2):
                    if (i, k) not in pairs:
                        ctx.require(zt(D[i][k]) >= zt(L), 'maxmatch=0: every pair below the match length is returned', dict(d, i=i, k=k))
        else:
            for i in range(n1):
                ctx.require(m1.count(i) <= maxmatch, 'no first-list point used more than maxmatch times', d)
            for k in range(n2):
                ctx.require(m2.count(k) <= maxmatch, 'no second-list point used more than maxmatch times', d)
            for i in range(n1):
                for k in range(n2):
                    if (i, k) in pairs:
                        continue
                    # left out only if too far, or one endpoint is saturated by pairs that are no farther apart
                    sat1 = z3.Sum([z3.If(zt(D[a][b]) <= zt(D[i][k]), 1, 0) for (a, b) in pairs if a == i] + [z3.IntVal(0)]) >= maxmatch
                    sat2 = z3.Sum([z3.If(zt(D[a][b]) <= zt(D[i][k]), 1, 0) for (a, b) in pairs if b == k] + [z3.IntVal(0)]) >= maxmatch
                    ctx.require(z3.Or(zt(D[i][k]) >= zt(L), sat1, sat2),
                                'maxmatch=k: a close pair is left out only if an endpoint is already used k times by nearer pairs',
                                dict(d, i=i, k=k))
    return Obligation('spherematch %dx%d maxmatch=%d' % (n1, n2, maxmatch), fn,
                      bounds='%dx%d points, every distance matrix and match length' % (n1, n2), max_paths=300000, max_seconds=1700)


def obligations(tier, seed):
    shapes = [(2, 1), (2, 2)] if tier == 'quick' else [(2, 1), (2, 2), (3, 2), (2, 3)]
    obs = []
    for n1, n2 in shapes:
        for mm in (0, 1, 2):
            obs.append(ob_match(n1, n2, mm))
    if tier == 'quick':
        obs.append(ob_match(3, 2, 1))
        obs.append(ob_match(3, 1, 2))      # one second-list point with three partners, maxmatch=2
        obs.append(ob_match(2, 3, 2))
    return obs


def _f(v):
    if isinstance(v, dict):
        return int(v['num']) / int(v['den'])
    return float(v)


def replay(rec):
    import pydl.pydlutils.spheregroup as sg
    d = rec['detail'] or {}
    inp = rec['inputs'] or {}
    n1, n2, mm = d['n1'], d['n2'], d['maxmatch']
    # exact dyadic scaling keeps 3600*D/3600 exact enough; compare with tolerance-free logic on the inputs
    D = [[_f(inp['d%d_%d' % (i, k)]) for k in range(n2)] for i in range(n1)]
    L = _f(inp['L'])
    m1, m2, dist = _run(sg, n1, n2, lambda i, k: D[i][k], L, mm)
    m1, m2, dist = list(map(int, m1)), list(map(int, m2)), list(map(float, dist))
    pairs = list(zip(m1, m2))
    if len(pairs) != len(set(pairs)):
        return True
    tol = 1e-9
    for (i, k), dv in zip(pairs, dist):
        if not (D[i][k] < L) or abs(dv - D[i][k]) > tol * max(1.0, abs(dv)):
            return True
    if any(a > b + tol for a, b in zip(dist, dist[1:])):
        return True
    if mm == 0:
        return any(D[i][k] < L - tol and (i, k) not in pairs for i in range(n1) for k in range(n2))
    if any(m1.count(i) > mm for i in range(n1)) or any(m2.count(k) > mm for k in range(n2)):
        return True
    for i in range(n1):
        for k in range(n2):
            if (i, k) in pairs or D[i][k] >= L - tol:
                continue
            s1 = sum(1 for (a, b) in pairs if a == i and D[a][b] <= D[i][k] + tol)
            s2 = sum(1 for (a, b) in pairs if b == k and D[a][b] <= D[i][k] + tol)
            if s1 < mm and s2 < mm:
                return True
    return False
