"""C04 - spherematch returns exactly the pairs closer than the match length (partial, in two halves:
(a) the pair loop, sorting and maxmatch bookkeeping are the real code over a trivially complete hash and an
arbitrary distance matrix; (b) the real spatial hash - chunks.__init__ / rarange / assign / getbounds / get -
is shown complete in its own box metric (Dec and RA cos Dec within the match length, across the RA seam)
for symbolic right ascensions.  The spherical-geometry step from 'separation < L' to that box is not
decided by any SMT theory and is not claimed."""
import numpy as np
import z3

from pathsym import core, symnp
from pathsym.core import R, B, zt
from fractions import Fraction
from .common import Obligation

F = Fraction

PID = 'C04'

META = {
    'functions_encoded': ['pydl.pydlutils.spheregroup.spherematch (candidate loop, sep < matchlength, argsort, maxmatch passes)',
                          'chunks.__init__', 'chunks.rarange', 'chunks.getraminmax', 'chunks.cosDecMin', 'chunks.assign', 'chunks.getbounds', 'chunks.get'],
    'stubs': ['match obligations: class chunks -> hash whose single cell holds every point of the second list (trivially complete); '
              'hash obligations: the real class, cos / deg2rad of the (concrete) declination bounds evaluated in IEEE double and used as exact rationals',
              'gcirc -> 3600*D[i][k] arcsec with D an arbitrary non-negative real matrix'],
    'assumptions': ['argsort of symbolic distances: stable order for ties'],
    'outside_bounds': 'the spherical-geometry lemma "separation < L implies |dDec| < L and dRA cos Dec < L" that links the hash\'s box metric to '
                      'great-circle separation (trigonometric, no SMT theory decides it); hash: first-list declinations are concrete (five '
                      'configurations incl. a polar one), one second-list point, chunk sizes 30-120 deg; match loop: more than 3x2 points; maxmatch > 2',
}


class _StubChunks(object):
    n2 = 0

    def __init__(self, ra, dec, minSize):
        self.raOffset = 0.0
        self.chunkList = [[list(range(_StubChunks.n2))]]

    def assign(self, ra, dec, marginSize):
        pass

    def get(self, ra, dec):
        return (0, 0)


def _run(sg, n1, n2, Dfun, L, maxmatch):
    _StubChunks.n2 = n2
    saved = (sg.chunks, sg.gcirc)

    def gcirc(ra1, dec1, ra2, dec2, units=2):
        return Dfun(int(ra1), int(ra2)) * 3600
    sg.chunks, sg.gcirc = _StubChunks, gcirc
    try:
        return sg.spherematch(np.arange(n1, dtype=float), np.zeros(n1), np.arange(n2, dtype=float), np.zeros(n2),
                              L, maxmatch=maxmatch)
    finally:
        sg.chunks, sg.gcirc = saved


def ob_match(n1, n2, maxmatch):
    def fn(ctx):
        import pydl.pydlutils.spheregroup as sg
        D = [[ctx.real('d%d_%d' % (i, k)) for k in range(n2)] for i in range(n1)]
        for row in D:
            for v in row:
                ctx.add(zt(v) >= 0)
        L = ctx.real('L')
        ctx.add(zt(L) > 0)
        ctx.detail = {'fn': 'match', 'n1': n1, 'n2': n2, 'maxmatch': maxmatch}
        m1, m2, dist = _run(sg, n1, n2, lambda i, k: D[i][k], L, maxmatch)
        m1 = [int(v) for v in np.asarray(m1).tolist()]
        m2 = [int(v) for v in np.asarray(m2).tolist()]
        dist = list(dist.tolist()) if hasattr(dist, 'tolist') else list(dist)
        d = {'fn': 'match', 'n1': n1, 'n2': n2, 'maxmatch': maxmatch, 'm1': m1, 'm2': m2}
        pairs = list(zip(m1, m2))
        ctx.require(len(pairs) == len(set(pairs)), 'no pair reported twice', d)
        for (i, k), dv in zip(pairs, dist):
            ctx.require(zt(D[i][k]) < zt(L), 'reported pair is closer than the match length', d)
            ctx.require(zt(R.lift(dv)) == zt(D[i][k]), 'reported distance is the true separation', d)
        for a, b in zip(dist, dist[1:]):
            ctx.require(zt(R.lift(a)) <= zt(R.lift(b)), 'distances non-decreasing', d)
        if maxmatch == 0:
            for i in range(n1):
                for k in range(n2):
                    if (i, k) not in pairs:
                        ctx.require(zt(D[i][k]) >= zt(L), 'maxmatch=0: every pair below the match length is returned', dict(d, i=i, k=k))
        else:
            for i in range(n1):
                ctx.require(m1.count(i) <= maxmatch, 'no first-list point used more than maxmatch times', d)
            for k in range(n2):
                ctx.require(m2.count(k) <= maxmatch, 'no second-list point used more than maxmatch times', d)
            for i in range(n1):
                for k in range(n2):
                    if (i, k) in pairs:
                        continue
                    # left out only if too far, or one endpoint is saturated by pairs that are no farther apart
                    sat1 = z3.Sum([z3.If(zt(D[a][b]) <= zt(D[i][k]), 1, 0) for (a, b) in pairs if a == i] + [z3.IntVal(0)]) >= maxmatch
                    sat2 = z3.Sum([z3.If(zt(D[a][b]) <= zt(D[i][k]), 1, 0) for (a, b) in pairs if b == k] + [z3.IntVal(0)]) >= maxmatch
                    ctx.require(z3.Or(zt(D[i][k]) >= zt(L), sat1, sat2),
                                'maxmatch=k: a close pair is left out only if an endpoint is already used k times by nearer pairs',
                                dict(d, i=i, k=k))
    return Obligation('spherematch %dx%d maxmatch=%d' % (n1, n2, maxmatch), fn,
                      bounds='%dx%d points, every distance matrix and match length' % (n1, n2), max_paths=300000, max_seconds=1700)


# ------------------------------------------------------------------ the spatial hash (chunks): box completeness
HASH_CONFIGS = {
    # name: (declinations of the first list, chunk size, match length, RA window of the first list or None)
    'equator-120': ([F(0), F(0)], F(120), F(20), None),
    'equator-120-seam': ([F(0), F(0)], F(120), F(20), 'seam-narrow'),
    'equator-40-seam': ([F(0), F(5)], F(40), F(10), 'seam'),
    'band-40': ([F(-10), F(10)], F(40), F(15), 'seam'),       # (all RA: over the 1700 s budget)
    'polar-30': ([F(80), F(85)], F(30), F(5), None),
    # next to the pole the declination grid is clipped at 90 deg: slices narrower than the match length, a margin spanning several
    'polar-narrow': ([F(177, 2), F(179, 2)], F(1), F(19, 20), 'local'),
    'three-60': ([F(0), F(20), F(-20)], F(60), F(25), 'seam'),
}


def ob_hash(name):
    """the real chunks.__init__ / assign / get on symbolic right ascensions: a second-list point that is
    within the match length of a first-list point in declination and in (RA x cos dec) - across the
    0/360 seam too - must be listed in the cell the first-list point is looked up in."""
    dec1, minsize, margin, window = HASH_CONFIGS[name]

    def fn(ctx):
        import math
        import pydl.pydlutils.spheregroup as sg
        n1 = len(dec1)
        ra1 = [ctx.real('ra1_%d' % i) for i in range(n1)]
        for v in ra1:
            ctx.add(z3.And(zt(v) >= 0, zt(v) < 360))
            if window == 'seam':
                ctx.add(z3.Or(zt(v) < 15, zt(v) >= 345))
            if window == 'seam-narrow':
                ctx.add(z3.Or(zt(v) < 10, zt(v) >= 350))
            if window == 'local':
                ctx.add(z3.And(zt(v) >= 99, zt(v) <= 101))
        ra2, dec2 = ctx.real('ra2'), ctx.real('dec2')
        ctx.add(z3.And(zt(ra2) >= 0, zt(ra2) < 360, zt(dec2) > -90, zt(dec2) < 90))
        if window == 'seam-narrow':
            ctx.add(z3.And(z3.Or(zt(ra2) < 40, zt(ra2) >= 320), zt(dec2) > -30, zt(dec2) < 30))
        if window == 'local':
            ctx.add(z3.And(zt(ra2) >= 98, zt(ra2) <= 102, zt(dec2) > 87))
        d = {'fn': 'hash', 'config': name}
        ctx.detail = d
        chunk = sg.chunks(symnp.rarray(ra1), symnp.rarray(dec1), R(minsize))
        chunk.assign(symnp.rarray([ra2]), symnp.rarray([dec2]), R(margin))
        for i in range(n1):
            currra = symnp.fmod(ra1[i] + chunk.raOffset, R(Fraction(360)))
            rachunk, decchunk = chunk.get(currra, R(dec1[i]))
            found = 0 in [int(k) for k in chunk.chunkList[decchunk][rachunk]]
            cosd = R(core._frac(math.cos(math.radians(float(dec1[i])))))
            dra = zt(ra1[i]) - zt(ra2)
            dra = z3.If(dra >= 0, dra, -dra)
            circ = z3.If(dra <= 180, dra, 360 - dra)
            ddec = zt(R(dec1[i])) - zt(dec2)
            near = z3.And(ddec < zt(R(margin)), -ddec < zt(R(margin)), circ * zt(cosd) < zt(R(margin)))
            if not found:
                ctx.require(z3.Not(near), 'spatial hash: a second-list point within the match length (in Dec and in RA cos Dec, also across the '
                            'RA seam) of a first-list point is listed in that point\'s cell', dict(d, i=i, cell=[int(decchunk), int(rachunk)]))
            else:
                ctx.require(zt(ra2) == zt(ra2), 'symbolic touch')
    return Obligation('chunk hash %s' % name, fn, bounds='first list: %d points at Dec %s, every RA%s; second list: one point anywhere; chunk size %s, match length %s'
                      % (len(dec1), [str(x) for x in dec1], {None: '', 'local': ' in [99, 101] (second list: RA in [98, 102], Dec > 87)', 'seam': ' within 15 deg of the seam', 'seam-narrow': ' within 10 deg of the seam (second list: within 40 deg of it, |Dec| < 30)'}[window], minsize, margin),
                      max_paths=400000, max_seconds=1700, solver_timeout_ms=60000)


def obligations(tier, seed):
    shapes = [(2, 1), (2, 2)] if tier == 'quick' else [(2, 1), (2, 2), (3, 2), (2, 3)]
    obs = []
    for n1, n2 in shapes:
        for mm in (0, 1, 2):
            obs.append(ob_match(n1, n2, mm))
    for name in (('equator-120-seam', 'polar-narrow') if tier == 'quick' else [n for n in HASH_CONFIGS if n != 'equator-120-seam']):
        obs.append(ob_hash(name))
    if tier == 'quick':
        obs.append(ob_match(3, 2, 1))
        obs.append(ob_match(3, 1, 2))      # one second-list point with three partners, maxmatch=2
        obs.append(ob_match(2, 3, 2))
    return obs


def _f(v):
    if isinstance(v, dict):
        return int(v['num']) / int(v['den'])
    return float(v)


def replay(rec):
    import pydl.pydlutils.spheregroup as sg
    d = rec['detail'] or {}
    inp = rec['inputs'] or {}
    if d.get('fn') == 'hash':
        import math
        dec1, minsize, margin, window = HASH_CONFIGS[d['config']]
        dec1 = np.array([float(v) for v in dec1])
        ra1 = np.array([_f(inp.get('ra1_%d' % i, 0)) for i in range(len(dec1))])
        ra2, dec2 = np.array([_f(inp.get('ra2', 0))]), np.array([_f(inp.get('dec2', 0))])
        chunk = sg.chunks(ra1, dec1, float(minsize))
        chunk.assign(ra2, dec2, float(margin))
        for i in range(len(dec1)):
            rc, dc = chunk.get(np.fmod(ra1[i] + chunk.raOffset, 360.0), dec1[i])
            found = 0 in chunk.chunkList[dc][rc]
            dra = abs(ra1[i] - ra2[0])
            circ = min(dra, 360.0 - dra)
            m = float(margin) * (1 - 1e-9)      # strictly inside the match length, clear of rounding at the boundary
            near = abs(dec1[i] - dec2[0]) < m and circ * math.cos(math.radians(dec1[i])) < m
            if near and not found:
                return True
        return False
    n1, n2, mm = d['n1'], d['n2'], d['maxmatch']
    # exact dyadic scaling keeps 3600*D/3600 exact enough; compare with tolerance-free logic on the inputs
    D = [[_f(inp['d%d_%d' % (i, k)]) for k in range(n2)] for i in range(n1)]
    L = _f(inp['L'])
    m1, m2, dist = _run(sg, n1, n2, lambda i, k: D[i][k], L, mm)
    m1, m2, dist = list(map(int, m1)), list(map(int, m2)), list(map(float, dist))
    pairs = list(zip(m1, m2))
    if len(pairs) != len(set(pairs)):
        return True
    tol = 1e-9
    for (i, k), dv in zip(pairs, dist):
        if not (D[i][k] < L) or abs(dv - D[i][k]) > tol * max(1.0, abs(dv)):
            return True
    if any(a > b + tol for a, b in zip(dist, dist[1:])):
        return True
    if mm == 0:
        return any(D[i][k] < L - tol and (i, k) not in pairs for i in range(n1) for k in range(n2))
    if any(m1.count(i) > mm for i in range(n1)) or any(m2.count(k) > mm for k in range(n2)):
        return True
    for i in range(n1):
        for k in range(n2):
            if (i, k) in pairs or D[i][k] >= L - tol:
                continue
            s1 = sum(1 for (a, b) in pairs if a == i and D[a][b] <= D[i][k] + tol)
            s2 = sum(1 for (a, b) in pairs if b == k and D[a][b] <= D[i][k] + tol)
            if s1 < mm and s2 < mm:
                return True
    return False
