"""C05 - spheregroup partitions points into friends-of-friends components (partial: the chunk
geometry is replaced by an arbitrary chunk membership obeying the margin invariant)."""
import itertools
import numpy as np
import z3

from pathsym import core, symnp
from pathsym.core import R, B, zt
from .common import Obligation

PID = 'C05'

META = {
    'functions_encoded': ['pydl.pydlutils.spheregroup.groups.__init__', 'pydl.pydlutils.spheregroup.chunks.friendsoffriends',
                          'pydl.pydlutils.spheregroup.chunks.chunkfriendsoffriends', 'chunks.__init__ / rarange / assign / getbounds (margin obligations)', 'pydl.pydlutils.spheregroup.spheregroup (renumbering, list rebuild)'],
    'stubs': ['gcirc -> D[i][j]: an arbitrary symmetric non-negative real matrix with zero diagonal (the separation of points i and j)',
              'chunks.__init__ / chunks.assign -> arbitrary symbolic point-in-chunk membership constrained by the margin invariant '
              '(every point in >= 1 chunk; every linked pair shares >= 1 chunk); numpy.deg2rad -> identity'],
    'assumptions': ['grouping obligations ASSUME the margin invariant of chunks.assign; the margin obligations show it on the real chunks class in its '
                    'box metric (Dec and RA cos Dec) for symbolic right ascensions; the trigonometric step from separation to that box is not shown'],
    'outside_bounds': 'the spherical-geometry lemma linking great-circle separation to the box metric; margin obligations: 3 points at concrete declinations, 4 configurations; '
                      'more than 6 points (single chunk) / 4 points x 3 chunks',
}


def _components(n, linked):
    parent = list(range(n))

    def find(a):
        while parent[a] != a:
            a = parent[a]
        return a
    for i in range(n):
        for j in range(i + 1, n):
            if linked(i, j):
                a, b = find(i), find(j)
                if a != b:
                    parent[max(a, b)] = min(a, b)
    return [find(i) for i in range(n)]


def _expected(n, linked):
    comp = _components(n, linked)
    order = []
    for c in comp:
        if c not in order:
            order.append(c)
    ing = [order.index(c) for c in comp]
    ng = len(order)
    mult = [ing.count(g) for g in range(ng)] + [0] * (n - ng)
    first = [ing.index(g) for g in range(ng)] + [-1] * (n - ng)
    nxt = []
    for i in range(n):
        later = [j for j in range(i + 1, n) if ing[j] == ing[i]]
        nxt.append(later[0] if later else -1)
    return ing, mult, first, nxt, ng


def _check_partition(ctx, d, n, got, exp, what, tails=True):
    ing, mult, first, nxt = [list(map(int, np.asarray(a).tolist())) for a in got]
    eing, emult, efirst, enxt, ng = exp
    if not tails:
        # the per-chunk `groups` object is internal: only its first nGroups entries are defined
        mult, first = mult[:ng] + emult[ng:], first[:ng] + efirst[ng:]
    d = dict(d, got={'ingroup': ing, 'mult': mult, 'first': first, 'next': nxt},
             expected={'ingroup': eing, 'mult': emult, 'first': efirst, 'next': enxt})
    ctx.require(ing == eing, what + ': same group <=> connected by links; groups numbered by first member', d)
    ctx.require(mult == emult, what + ': multiplicity[g] = size of group g, 0 beyond the last group', d)
    ctx.require(first == efirst, what + ': first[g] = lowest-index member, -1 beyond the last group', d)
    # following next[] from first[g] visits every member exactly once and ends at -1
    ok = True
    for g in range(ng):
        seen = []
        j = first[g] if g < len(first) else -1
        steps = 0
        while j != -1 and steps <= n:
            seen.append(j)
            j = nxt[j]
            steps += 1
        ok = ok and sorted(seen) == [i for i in range(n) if eing[i] == g] and len(seen) == len(set(seen))
    ctx.require(ok, what + ': next[] chain visits every member of g exactly once', d)


def ob_groups(n):
    def fn(ctx):
        from pydl.pydlutils.spheregroup import groups
        D = {}
        for i in range(n):
            for j in range(i + 1, n):
                D[(i, j)] = D[(j, i)] = ctx.real('d%d_%d' % (i, j))
                ctx.add(zt(D[(i, j)]) >= 0)
        L = ctx.real('L')
        ctx.add(zt(L) >= 0)

        def sep(x1, x2):
            i, j = int(x1[0]), int(x2[0])
            return R(0) if i == j else D[(i, j)]
        ctx.detail = {'fn': 'groups', 'n': n}
        g = groups(np.arange(n).reshape(1, n), L, sep)
        linked = lambda i, j: bool(D[(i, j)] <= L)
        exp = _expected(n, linked)
        d = {'fn': 'groups', 'n': n}
        ctx.require(int(g.nGroups) == exp[4], 'groups: number of groups', d)
        _check_partition(ctx, d, n, (g.inGroup, g.multGroup, g.firstGroup, g.nextGroup), exp, 'groups', tails=False)
    return Obligation('groups n=%d' % n, fn, bounds='%d points, every symmetric distance matrix and linking length' % n,
                      max_paths=100000, max_seconds=1700)


def ob_spheregroup(n, nchunks):
    def fn(ctx):
        import pydl.pydlutils.spheregroup as sg
        D = {}
        for i in range(n):
            for j in range(i + 1, n):
                D[(i, j)] = D[(j, i)] = ctx.real('d%d_%d' % (i, j))
                ctx.add(zt(D[(i, j)]) >= 0)
        L = ctx.real('L')
        ctx.add(zt(L) > 0)
        M = [[ctx.bool('m%d_%d' % (p, c)) for c in range(nchunks)] for p in range(n)]
        # stated invariant of chunks.assign (assumed): every point is in some chunk ...
        for p in range(n):
            ctx.add(z3.Or([zt(M[p][c]) for c in range(nchunks)]))
        # ... and two points within the linking length share a chunk
        for i in range(n):
            for j in range(i + 1, n):
                ctx.add(z3.Implies(zt(D[(i, j)]) <= zt(L), z3.Or([z3.And(zt(M[i][c]), zt(M[j][c])) for c in range(nchunks)])))

        class StubChunks(object):
            friendsoffriends = sg.chunks.friendsoffriends
            chunkfriendsoffriends = sg.chunks.chunkfriendsoffriends

            def __init__(self, ra, dec, minSize):
                self.nDec = 1
                self.nRa = [nchunks]
                self.chunkList = [[[] for c in range(nchunks)]]

            def assign(self, ra, dec, marginSize):
                for p in range(n):
                    for c in range(nchunks):
                        if M[p][c]:
                            self.chunkList[0][c].append(p)

        def gcirc(ra1, dec1, ra2, dec2, units=2):
            i, j = int(ra1), int(ra2)
            return R(0) if i == j else D[(i, j)]
        ctx.detail = {'fn': 'spheregroup', 'n': n, 'nchunks': nchunks}
        saved = (sg.chunks, sg.gcirc)
        sg.chunks, sg.gcirc = StubChunks, gcirc
        symnp.TRANSCENDENTAL_HOOKS['deg2rad'] = lambda x: x
        try:
            ra = np.arange(n, dtype=float)
            dec = np.zeros(n)
            got = sg.spheregroup(ra, dec, L)
        finally:
            sg.chunks, sg.gcirc = saved
            symnp.TRANSCENDENTAL_HOOKS.pop('deg2rad', None)
        linked = lambda i, j: bool(D[(i, j)] <= L)
        exp = _expected(n, linked)
        d = {'fn': 'spheregroup', 'n': n, 'nchunks': nchunks}
        _check_partition(ctx, d, n, got, exp, 'spheregroup')
    return Obligation('spheregroup n=%d chunks=%d' % (n, nchunks), fn,
                      bounds='%d points in <=%d chunks, every membership relation obeying the margin invariant, every distance matrix' % (n, nchunks),
                      max_paths=400000, max_seconds=1700)


def ob_chain(npts, labelling):
    """one long group spanning many chunks: points on a path (consecutive points linked, everything
    else unlinked), every chunk holds one consecutive pair (as the margin invariant requires), plus one
    isolated point in a chunk of its own.  The ORDER in which the chunks are visited - i.e. the order
    in which partial groups are created and merged - is a symbolic permutation."""
    def fn(ctx):
        import pydl.pydlutils.spheregroup as sg
        n = npts + 1                       # + decoy singleton
        order_on_path = list(labelling)    # path position -> input index
        D = {}
        L = ctx.real('L')
        ctx.add(zt(L) > 0)
        for i in range(n):
            for j in range(i + 1, n):
                D[(i, j)] = D[(j, i)] = ctx.real('d%d_%d' % (i, j))
                ctx.add(zt(D[(i, j)]) >= 0)
        pos = {idx: k for k, idx in enumerate(order_on_path)}
        for i in range(n):
            for j in range(i + 1, n):
                adjacent = i in pos and j in pos and abs(pos[i] - pos[j]) == 1
                ctx.add(zt(D[(i, j)]) <= zt(L) if adjacent else zt(D[(i, j)]) > zt(L))
        pairs = [(order_on_path[k], order_on_path[k + 1]) for k in range(npts - 1)]
        decoy = [i for i in range(n) if i not in pos][0]
        nch = len(pairs) + 1
        # symbolic visiting order of the chunks
        slots = []
        remaining = list(range(nch))
        for k in range(nch - 1):
            c = int(ctx.int('slot%d' % k, 0, len(remaining) - 1))
            slots.append(remaining.pop(c))
        slots.append(remaining[0])
        members = [sorted(pairs[c]) if c < len(pairs) else [decoy] for c in slots]
        d = {'fn': 'chain', 'npts': npts, 'labelling': list(labelling), 'slots': slots}
        ctx.detail = d

        class StubChunks(object):
            friendsoffriends = sg.chunks.friendsoffriends
            chunkfriendsoffriends = sg.chunks.chunkfriendsoffriends

            def __init__(self, ra, dec, minSize):
                self.nDec = 1
                self.nRa = [nch]
                self.chunkList = [[list(m) for m in members]]

            def assign(self, ra, dec, marginSize):
                pass

        def gcirc(ra1, dec1, ra2, dec2, units=2):
            i, j = int(ra1), int(ra2)
            return R(0) if i == j else D[(i, j)]
        saved = (sg.chunks, sg.gcirc)
        sg.chunks, sg.gcirc = StubChunks, gcirc
        symnp.TRANSCENDENTAL_HOOKS['deg2rad'] = lambda x: x
        try:
            got = sg.spheregroup(np.arange(n, dtype=float), np.zeros(n), L)
        finally:
            sg.chunks, sg.gcirc = saved
            symnp.TRANSCENDENTAL_HOOKS.pop('deg2rad', None)
        linked = lambda i, j: i in pos and j in pos and abs(pos[i] - pos[j]) == 1
        exp = _expected(n, linked)
        _check_partition(ctx, d, n, got, exp, 'spheregroup (chain over %d chunks)' % nch)
    return Obligation('spheregroup chain npts=%d labelling=%s' % (npts, ''.join(map(str, labelling))), fn,
                      bounds='a %d-point chain over %d chunks, every visiting order of the chunks' % (npts, npts), max_paths=400000, max_seconds=1700)


# ------------------------------------------------------------------ the margin invariant of the real chunks class
SELF_CONFIGS = {
    # name: (declinations, chunk size, linking length, RA window)
    'equator-seam': ([0, 0, 5], 120, 20, 'seam'),
    # (three right ascensions anywhere on the circle: over the 1700 s budget; windows around the seam instead)
    'band-80': ([-10, 10, 0], 80, 20, 'seam'),
    'polar': ([80, 85, 75], 40, 8, 'seam'),
}


def ob_margin(name):
    """what the grouping obligations ASSUME about chunks.assign is shown here on the real class, for symbolic
    right ascensions: every point is listed in at least one chunk, and two points within the linking length
    in Dec and in RA cos Dec (across the RA seam too) are listed together in at least one chunk."""
    from fractions import Fraction as F
    dec, minsize, margin, window = SELF_CONFIGS[name]

    def fn(ctx):
        import math
        import pydl.pydlutils.spheregroup as sg
        n = len(dec)
        ra = [ctx.real('ra%d' % i) for i in range(n)]
        for v in ra:
            ctx.add(z3.And(zt(v) >= 0, zt(v) < 360))
            if window == 'seam':
                ctx.add(z3.Or(zt(v) < 12, zt(v) >= 348))
        d = {'fn': 'margin', 'config': name}
        ctx.detail = d
        chunk = sg.chunks(symnp.rarray(ra), symnp.rarray([F(x) for x in dec]), R(F(minsize)))
        chunk.assign(symnp.rarray(ra), symnp.rarray([F(x) for x in dec]), R(F(margin)))
        cells = [[set(int(k) for k in cell) for cell in row] for row in chunk.chunkList]
        flat = [c for row in cells for c in row]
        for i in range(n):
            ctx.require(any(i in c for c in flat), 'chunks.assign: every point is listed in at least one chunk', dict(d, i=i))
        for i in range(n):
            for k in range(i + 1, n):
                shared = any(i in c and k in c for c in flat)
                if shared:
                    continue
                dra = zt(ra[i]) - zt(ra[k])
                dra = z3.If(dra >= 0, dra, -dra)
                circ = z3.If(dra <= 180, dra, 360 - dra)
                cmax = max(math.cos(math.radians(dec[i])), math.cos(math.radians(dec[k])))
                near = z3.And(abs(dec[i] - dec[k]) < margin, circ * zt(R(core._frac(cmax))) < margin)
                ctx.require(z3.Not(near), 'chunks.assign: two points within the linking length (in Dec and in RA cos Dec, also across the RA seam) '
                            'share at least one chunk', dict(d, i=i, k=k))
        ctx.require(zt(ra[0]) == zt(ra[0]), 'symbolic touch')
    return Obligation('chunk margin invariant %s' % name, fn, bounds='%d points at Dec %s, every RA%s, chunk size %s, linking length %s'
                      % (len(dec), dec, ' within 12 deg of the seam' if window else '', minsize, margin), max_paths=400000, max_seconds=1700)


def obligations(tier, seed):
    if tier == 'quick':
        return [ob_groups(2), ob_groups(3), ob_groups(4), ob_groups(5), ob_spheregroup(2, 2), ob_spheregroup(3, 2),
                ob_chain(5, (0, 1, 2, 3, 4)), ob_chain(6, (5, 0, 4, 1, 3, 6)), ob_margin('equator-seam')]
    return [ob_groups(n) for n in (2, 3, 4, 5, 6)] + [ob_spheregroup(2, 2), ob_spheregroup(3, 2), ob_spheregroup(3, 3),
                                                     ob_spheregroup(4, 2), ob_chain(5, (0, 1, 2, 3, 4)), ob_chain(6, (5, 0, 4, 1, 3, 6)),
                                                     ob_chain(6, (0, 1, 2, 3, 4, 5)), ob_chain(7, (3, 0, 6, 1, 5, 2, 7)), ob_chain(6, (2, 6, 0, 5, 1, 4))] + \
        [ob_margin(name) for name in SELF_CONFIGS]


# ------------------------------------------------------------------ replay
def _f(v):
    if isinstance(v, dict):
        return int(v['num']) / int(v['den'])
    return float(v)


def replay(rec):
    import pydl.pydlutils.spheregroup as sg
    d = rec['detail'] or {}
    inp = rec['inputs'] or {}
    if d.get('fn') == 'margin':
        import math
        dec, minsize, margin, window = SELF_CONFIGS[d['config']]
        n = len(dec)
        ra = np.array([_f(inp.get('ra%d' % i, 0)) for i in range(n)])
        de = np.array([float(x) for x in dec])
        chunk = sg.chunks(ra, de, float(minsize))
        chunk.assign(ra, de, float(margin))
        flat = [set(c) for row in chunk.chunkList for c in row]
        if not all(any(i in c for c in flat) for i in range(n)):
            return True
        m = float(margin) * (1 - 1e-9)
        for i in range(n):
            for k in range(i + 1, n):
                dra = abs(ra[i] - ra[k])
                circ = min(dra, 360.0 - dra)
                cmax = max(math.cos(math.radians(dec[i])), math.cos(math.radians(dec[k])))
                if abs(dec[i] - dec[k]) < m and circ * cmax < m and not any(i in c and k in c for c in flat):
                    return True
        return False
    n = d.get('n', 0)
    L = _f(inp['L'])
    D = np.zeros((n, n))
    for i in range(n):
        for j in range(i + 1, n):
            D[i, j] = D[j, i] = _f(inp['d%d_%d' % (i, j)])
    linked = lambda i, j: D[i, j] <= L
    exp = _expected(n, linked)
    if d['fn'] == 'chain':
        npts, labelling, slots = d['npts'], d['labelling'], d['slots']
        n = npts + 1
        pos = {idx: k for k, idx in enumerate(labelling)}
        adj = lambda i, j: i in pos and j in pos and abs(pos[i] - pos[j]) == 1
        Dm = np.array([[0.0 if i == j else (0.5 if adj(i, j) else 2.0) for j in range(n)] for i in range(n)])
        pairs = [(labelling[k], labelling[k + 1]) for k in range(npts - 1)]
        decoy = [i for i in range(n) if i not in pos][0]
        members = [sorted(pairs[c]) if c < len(pairs) else [decoy] for c in slots]

        class StubChunks2(object):
            friendsoffriends = sg.chunks.friendsoffriends

            def chunkfriendsoffriends(self, ra, dec, chunkList, linkSep):
                x = np.vstack((ra[chunkList], dec[chunkList]))
                return sg.groups(x, linkSep, lambda x1, x2: Dm[int(x1[0]), int(x2[0])])

            def __init__(self, ra, dec, minSize):
                self.nDec = 1
                self.nRa = [len(members)]
                self.chunkList = [[list(m) for m in members]]

            def assign(self, ra, dec, marginSize):
                pass
        saved = sg.chunks
        sg.chunks = StubChunks2
        try:
            got = sg.spheregroup(np.arange(n, dtype=float), np.zeros(n), 1.0)
        finally:
            sg.chunks = saved
        exp = _expected(n, adj)
        ing, mult, first, nxt = [list(map(int, np.asarray(a).tolist())) for a in got]
        return [ing, mult, first, nxt] != [exp[0], exp[1], exp[2], exp[3]]
    if d['fn'] == 'groups':
        g = sg.groups(np.arange(n).reshape(1, n), L, lambda x1, x2: D[int(x1[0]), int(x2[0])])
        got = (g.inGroup, g.multGroup, g.firstGroup, g.nextGroup)
    else:
        nchunks = d['nchunks']
        M = [[bool(inp.get('m%d_%d' % (p, c), False)) for c in range(nchunks)] for p in range(n)]

        class StubChunks(object):
            friendsoffriends = sg.chunks.friendsoffriends

            def chunkfriendsoffriends(self, ra, dec, chunkList, linkSep):
                x = np.vstack((ra[chunkList], dec[chunkList]))
                return sg.groups(x, linkSep, lambda x1, x2: D[int(x1[0]), int(x2[0])])

            def __init__(self, ra, dec, minSize):
                self.nDec = 1
                self.nRa = [nchunks]
                self.chunkList = [[[p for p in range(n) if M[p][c]] for c in range(nchunks)]]

            def assign(self, ra, dec, marginSize):
                pass
        saved = sg.chunks
        sg.chunks = StubChunks
        try:
            got = sg.spheregroup(np.arange(n, dtype=float), np.zeros(n), L)
        finally:
            sg.chunks = saved
    ing, mult, first, nxt = [list(map(int, np.asarray(a).tolist())) for a in got]
    if d['fn'] == 'groups':
        ng = exp[4]
        mult, first = mult[:ng] + exp[1][ng:], first[:ng] + exp[2][ng:]
    return [ing, mult, first, nxt] != [exp[0], exp[1], exp[2], exp[3]]
