"""C03 - yanny: object and file never diverge over write / append histories."""
import numpy as np
import z3

from pathsym import core, symnp, sstr
from pathsym.core import R, B, Z, BV, zt
from pathsym.sstr import SStr, sym_chars
from .common import Obligation
from .yannylib import FS, install, uninstall, S, cell_eq, column_values, text_eq

PID = 'C03'

META = {
    'functions_encoded': ['pydl.pydlutils.yanny.yanny.__init__', 'write', 'append', '_parse', 'protect', 'get_token', 'trailing_comment', 'tables/columns/size/pairs'],
    'stubs': ['in-memory file system with POSIX create / append / exists semantics', 're -> pathsym.symre', 'record arrays -> record stand-in',
              'datetime.utcnow: real (concrete timestamp text)'],
    'assumptions': ['appended strings: TAB + printable ASCII without double quote, leading {, trailing backslash (format limits of C01)',
                    'the operation at each step is a solver-chosen selector (concretised on demand)'],
    'outside_bounds': 'real OS file semantics (permissions, concurrent writers); histories longer than 3 steps (2 in the quick tier)',
}

START = '''#%yanny
# start
a 1
MJD 54579

typedef struct {
    int id;
    char name[6];
} TAB;

typedef struct {
    short n;
    char tags[2][3];
} OTHER;

TAB 1 one
TAB 2 "t w"
OTHER 7 {x y}
'''

OPS = ['write-new', 'append-rows-upper', 'append-rows-lower-rec', 'append-pairs', 'append-empty', 'write-over-existing', 'append-to-missing', 're-read',
       'append-other']


CASEKEYS = {1: 'mjd', 2: 'Mjd', 3: 'mJD'}
NOTHING = ['{}', 'TAB: empty lists', 'tab: empty lists', 'TAB: zero-length record array', 'tab: zero-length record array']


def nothing(k, empty_rec):
    return [{}, {'TAB': {'id': [], 'name': []}}, {'tab': {'id': [], 'name': []}}, {'TAB': empty_rec()}, {'tab': empty_rec()}][k]


class Model(object):
    def __init__(self):
        self.tables = {'TAB': {'id': [1, 2], 'name': ['one', 't w']}, 'OTHER': {'n': [7], 'tags': [['x', 'y']]}}
        self.pairs = [('a', '1'), ('MJD', '54579')]
        self.path = '/d/a.par'


def check_state(ctx, par, model, fs, ymod, raw, d, step):
    dd = dict(d, step=step)
    fresh = ymod.yanny(model.path, raw=raw)
    for obj, what in ((par, 'object'), (fresh, 'fresh read of its file')):
        ctx.require(sorted(obj.tables()) == sorted(model.tables), what + ': tables', dd)
        ctx.require([str(k) for k in obj.pairs()] == [k for k, v in model.pairs], what + ': keyword pairs in order', dict(dd, pairs=[str(k) for k in obj.pairs()]))
        for k, v in model.pairs:
            if k in obj.pairs():
                ctx.require(text_eq(obj[k], v), what + ': pair value', dict(dd, key=k))
        for t, cols in model.tables.items():
            n = len(next(iter(cols.values())))
            ctx.require(obj.size(t) == n, what + ': original rows followed by every appended row', dict(dd, table=t, size=obj.size(t), exp=n))
            for c, vals in cols.items():
                got = column_values(obj, t, c)
                for i in range(min(n, len(got))):
                    ctx.require(cell_eq(got[i], vals[i]), what + ': cell value (rows in order)', dict(dd, table=t, col=c, row=i))
    ctx.require(par.filename == model.path, 'object is attached to the file written last', dd)


def ob_history(nsteps, raw, first=None, nchar=2):
    def fn(ctx):
        import warnings
        import pydl.pydlutils.yanny as ymod
        from pydl.pydlutils import PydlutilsException
        fs = FS()
        saved = install(ymod, fs)
        try:
            fs.files['/d/a.par'] = START
            fs.files['/d/existing.par'] = 'b 2\n'
            par = ymod.yanny('/d/a.par', raw=raw)
            model = Model()
            d = {'fn': 'history', 'nsteps': nsteps, 'raw': raw, 'ops': [], 'nchar': nchar}
            ctx.detail = d
            check_state(ctx, par, model, fs, ymod, raw, d, 0)
            for step in range(1, nsteps + 1):
                lo, hi = (0, len(OPS) - 1) if (first is None or step > 1) else (first, first)
                op = OPS[int(ctx.int('op%d' % step, lo, hi))]
                d['ops'].append(op)
                ctx.detail = d
                before_files = dict(fs.files)
                before_contents = par._contents
                ch = sym_chars(ctx, 's%d' % step, nchar, exclude='"')
                ctx.add(z3.And(ch[0] != ord('{'), ch[-1] != ord('\\')))
                sv = SStr.mk(ch)
                if op == 'write-new':
                    newp = '/d/new%d.par' % step
                    par.write(newp)
                    model.path = newp
                    ctx.require(fs.files.get('/d/a.par') == before_files.get('/d/a.par'), 'writing a copy leaves the previous file untouched', dict(d, step=step))
                elif op == 'append-rows-upper':
                    par.append({'TAB': {'id': [10 + step, 20 + step], 'name': [sv, 'zz']}})
                    model.tables['TAB']['id'] += [10 + step, 20 + step]
                    model.tables['TAB']['name'] += [sv, 'zz']
                elif op == 'append-rows-lower-rec':
                    rec = symnp.SymRec(1, np.dtype([('id', 'i4'), ('name', 'S6')]))
                    rec._fields['id'][0] = BV(30 + step, 'i4')
                    rec._fields['name'][0] = SStr.mk(ch, True)
                    par.append({'tab': rec})
                    model.tables['TAB']['id'] += [30 + step]
                    model.tables['TAB']['name'] += [sv]
                elif op == 'append-other':
                    par.append({'OTHER': {'n': [step], 'tags': [[SStr.mk([c for c in ch if True][:1]) if False else 'p', 'q']]}})
                    model.tables['OTHER']['n'] += [step]
                    model.tables['OTHER']['tags'] += [['p', 'q']]
                elif op == 'append-pairs':
                    hv = sym_chars(ctx, 'h%d' % step, 1, exclude='#')
                    ctx.add(z3.And(hv[0] != 32, hv[0] != 9, hv[0] != 92))
                    val = S('v', hv)
                    # a new key, and a second one that differs from an existing pair only by letter case
                    par.append({'key%d' % step: val, CASEKEYS[step]: 'w%d' % step})
                    model.pairs.append(('key%d' % step, val))
                    model.pairs.append((CASEKEYS[step], 'w%d' % step))
                elif op == 'append-empty':
                    # 'nothing' in any of its spellings (choice made by the solver): no key, a table without rows given as
                    # lists or as a zero-length record array, under either letter case
                    nv = int(ctx.int('nothing%d' % step, 0, len(NOTHING) - 1))
                    with warnings.catch_warnings(record=True) as w:
                        warnings.simplefilter('always')
                        par.append(nothing(nv, lambda: symnp.SymRec(0, np.dtype([('id', 'i4'), ('name', 'S6')]))))
                    ctx.require(len(w) >= 1, 'appending nothing warns', dict(d, step=step, nothing=NOTHING[nv]))
                    ctx.require(fs.files == before_files, 'appending nothing changes no file', dict(d, step=step, nothing=NOTHING[nv]))
                elif op == 'write-over-existing':
                    try:
                        par.write('/d/existing.par')
                        ok = False
                    except PydlutilsException:
                        ok = True
                    ctx.require(ok, 'a write never replaces an existing file: it raises', dict(d, step=step))
                    ctx.require(fs.files == before_files and par.filename == model.path, 'refused write leaves file and object as they were', dict(d, step=step))
                elif op == 'append-to-missing':
                    content = fs.files.pop(model.path)
                    try:
                        par.append({'TAB': {'id': [99], 'name': ['gone']}})
                        ok = False
                    except PydlutilsException:
                        ok = True
                    ctx.require(ok, 'an append never creates a file: it raises', dict(d, step=step))
                    ctx.require(model.path not in fs.files, 'refused append creates no file', dict(d, step=step))
                    fs.files[model.path] = content
                elif op == 're-read':
                    par = ymod.yanny(model.path, raw=raw)
                # earlier lines of the file are preserved byte for byte by appends
                if op.startswith('append') and model.path in before_files and op not in ('append-to-missing',):
                    old = SStr.lift(before_files[model.path])
                    new = SStr.lift(fs.files[model.path])
                    ctx.require(len(new.items) >= len(old.items) and z3.simplify(SStr(new.items[:len(old.items)]).eq_term(old)),
                                'earlier lines of the file are preserved byte for byte', dict(d, step=step))
                check_state(ctx, par, model, fs, ymod, raw, d, step)
        finally:
            uninstall(ymod, saved)
    return Obligation('history steps=%d raw=%d first=%s nchar=%d' % (nsteps, raw, OPS[first] if first is not None else '*', nchar), fn,
                      bounds='every history of %d operations, appended strings of 2 symbolic characters' % nsteps, max_paths=600000, max_seconds=1700)


def obligations(tier, seed):
    q = tier == 'quick'
    obs = [ob_history(1, raw) for raw in (True, False)]
    for first in range(len(OPS)):
        obs.append(ob_history(2, first % 2 == 0, first=first, nchar=1 if q else 2))
        if not q:
            obs.append(ob_history(2, first % 2 == 1, first=first))
    if not q:
        for first in (0, 1, 3, 7):
            obs.append(ob_history(3, True, first=first, nchar=1))
    return obs


def validate(seed, tier):
    from . import symre_validation
    return symre_validation.run(seed + 13, 30 if tier == 'quick' else 100)


# ------------------------------------------------------------------ replay
def replay(rec):
    import os
    import shutil
    import tempfile
    import warnings
    from pydl.pydlutils.yanny import yanny
    from pydl.pydlutils import PydlutilsException
    d = rec['detail'] or {}
    inp = rec['inputs'] or {}
    raw = d['raw']
    tmp = tempfile.mkdtemp(prefix='c03replay')
    try:
        p0 = os.path.join(tmp, 'a.par')
        with open(p0, 'w') as f:
            f.write(START)
        with open(os.path.join(tmp, 'existing.par'), 'w') as f:
            f.write('b 2\n')
        par = yanny(p0, raw=raw)
        model = Model()
        model.path = p0

        def state_ok():
            fresh = yanny(model.path, raw=raw)
            for obj in (par, fresh):
                if sorted(obj.tables()) != sorted(model.tables) or list(obj.pairs()) != [k for k, v in model.pairs]:
                    return False
                for k, v in model.pairs:
                    if obj[k] != v:
                        return False
                for t, cols in model.tables.items():
                    n = len(next(iter(cols.values())))
                    if obj.size(t) != n:
                        return False
                    for c, vals in cols.items():
                        got = obj[t][c]
                        for i in range(n):
                            g = got[i]
                            g = g.tolist() if hasattr(g, 'tolist') else g
                            g = [x.decode() if isinstance(x, bytes) else x for x in g] if isinstance(g, list) else (g.decode() if isinstance(g, bytes) else g)
                            if g != vals[i]:
                                return False
            return par.filename == model.path
        if not state_ok():
            return True
        nsteps = d['nsteps']
        for step in range(1, nsteps + 1):
            op = OPS[int(inp.get('op%d' % step, 0))]
            sv = ''.join(chr(int(inp.get('s%d_%d' % (step, j), 65))) for j in range(d.get('nchar', 2)))
            with open(model.path) as f:
                before = f.read()
            listing = sorted(os.listdir(tmp))
            if op == 'write-new':
                newp = os.path.join(tmp, 'new%d.par' % step)
                par.write(newp)
                model.path = newp
            elif op == 'append-rows-upper':
                par.append({'TAB': {'id': [10 + step, 20 + step], 'name': [sv, 'zz']}})
                model.tables['TAB']['id'] += [10 + step, 20 + step]
                model.tables['TAB']['name'] += [sv, 'zz']
            elif op == 'append-rows-lower-rec':
                r = np.zeros(1, dtype=[('id', 'i4'), ('name', 'S6')])
                r['id'], r['name'] = 30 + step, sv.encode('latin-1')
                par.append({'tab': r})
                model.tables['TAB']['id'] += [30 + step]
                model.tables['TAB']['name'] += [sv]
            elif op == 'append-other':
                par.append({'OTHER': {'n': [step], 'tags': [['p', 'q']]}})
                model.tables['OTHER']['n'] += [step]
                model.tables['OTHER']['tags'] += [['p', 'q']]
            elif op == 'append-pairs':
                val = 'v' + chr(int(inp.get('h%d_0' % step, 65)))
                par.append({'key%d' % step: val, CASEKEYS[step]: 'w%d' % step})
                model.pairs.append(('key%d' % step, val))
                model.pairs.append((CASEKEYS[step], 'w%d' % step))
            elif op == 'append-empty':
                with warnings.catch_warnings(record=True) as w:
                    warnings.simplefilter('always')
                    par.append(nothing(int(inp.get('nothing%d' % step, 0)), lambda: np.zeros(0, dtype=[('id', 'i4'), ('name', 'S6')])))
                with open(model.path) as f:
                    now = f.read()
                if not w or sorted(os.listdir(tmp)) != listing or now != before:
                    return True
            elif op == 'write-over-existing':
                try:
                    par.write(os.path.join(tmp, 'existing.par'))
                    return True
                except PydlutilsException:
                    pass
            elif op == 'append-to-missing':
                os.rename(model.path, model.path + '.hidden')
                try:
                    par.append({'TAB': {'id': [99], 'name': ['gone']}})
                    return True
                except PydlutilsException:
                    pass
                if os.path.exists(model.path):
                    return True
                os.rename(model.path + '.hidden', model.path)
            elif op == 're-read':
                par = yanny(model.path, raw=raw)
            if op.startswith('append') and op != 'append-to-missing':
                with open(model.path) as f:
                    if not f.read().startswith(before):
                        return True
            if not state_ok():
                return True
        return False
    finally:
        shutil.rmtree(tmp, ignore_errors=True)
