"""C14 - smooth / median / uniq / rebin follow the IDL rules of the statement.

Array *contents* are symbolic (exact reals; int64 bit-vectors for the integer rebin branch);
shapes, widths and factors are enumerated (that enumeration is not the deciding step: for each
shape the solver decides the property for every content)."""
import itertools
from fractions import Fraction
import numpy as np
import z3

from pathsym import core, symnp
from pathsym.core import R, B, BV, zt
from .common import Obligation

PID = 'C14'

META = {
    'functions_encoded': ['pydl.smooth.smooth', 'pydl.median.median', 'pydl.uniq.uniq', 'pydl.rebin.rebin'],
    'stubs': ['scipy.signal.medfilt/medfilt2d and numpy.median: replaced by their documented definition '
              '(zero-padded running median / middle of the sorted values) evaluated with symbolic comparisons'],
    'assumptions': ['floats are modelled as exact reals (IEEE rounding, NaN and inf are outside the claim)',
                    'argsort of symbolic values: stable order for ties (numpy small-array behaviour)',
                    'integer rebin: int64 only (numpy sum() promotion of narrower types is not modelled)'],
    'outside_bounds': 'array sizes above the stated per-obligation bounds; output dtype identity (checked by the '
                      'concrete differential runs only)',
}


def _mods():
    import pydl
    return pydl


# ------------------------------------------------------------------ oracles (generic numbers)
def smooth_oracle(xs, w, et):
    n = len(xs)
    width = w + 1 if w % 2 == 0 else w
    if width < 3:
        return list(xs)
    h = width // 2
    out = []
    for i in range(n):
        if i - h >= 0 and i + h <= n - 1:
            s = xs[i - h]
            for j in range(i - h + 1, i + h + 1):
                s = s + xs[j]
            out.append(s / width)
        elif et:
            s = None
            for j in range(i - h, i + h + 1):
                v = xs[min(max(j, 0), n - 1)]
                s = v if s is None else s + v
            out.append(s / width)
        else:
            out.append(xs[i])
    return out


def rank_is(m, vals, k):
    """z3: m is the k-th smallest (0-based) of vals: #less <= k  and  #less-or-equal >= k+1."""
    lt = z3.Sum([z3.If(zt(v) < zt(m), 1, 0) for v in vals])
    le = z3.Sum([z3.If(zt(v) <= zt(m), 1, 0) for v in vals])
    return z3.And(lt <= k, le >= k + 1)


# ------------------------------------------------------------------ obligations
def ob_smooth(n, w, et):
    def fn(ctx):
        from pydl import smooth
        xs = ctx.reals('x', n)
        x = symnp.rarray(xs)
        keep = [zt(v) for v in xs]
        out = smooth(x, w, edge_truncate=et)
        exp = smooth_oracle(xs, w, et)
        ctx.require(out.shape == (n,), 'smooth shape')
        for i in range(n):
            ctx.require(out[i] == exp[i], 'smooth value', {'fn': 'smooth', 'n': n, 'w': w, 'et': et, 'i': i})
        for i in range(n):
            ctx.require(zt(x[i]) == keep[i], 'smooth input unchanged', {'fn': 'smooth', 'n': n, 'w': w, 'et': et, 'i': i})
    return Obligation('smooth n=%d w=%d et=%d' % (n, w, et), fn, bounds='n=%d width=%d' % (n, w))


def ob_median_scalar(n, even, shape=None):
    def fn(ctx):
        from pydl import median
        xs = ctx.reals('x', n)
        arr = symnp.rarray(xs)
        if shape is not None:
            arr = arr.reshape(shape)        # the IDL median of an N-D array is that of all its elements
        m = median(arr, even=even)
        d = {'fn': 'median', 'n': n, 'even': even, 'shape': list(shape) if shape else None}
        if n % 2 == 1:
            ctx.require(rank_is(m, xs, n // 2), 'median odd', d)
        elif not even:
            ctx.require(rank_is(m, xs, n // 2), 'median upper-middle', d)
            ctx.require(z3.Or([zt(m) == zt(v) for v in xs]), 'median is an element', d)
        else:
            lo, hi = z3.Real('lo'), z3.Real('hi')
            ctx.require(z3.Exists([lo, hi], z3.And(rank_is(R(lo), xs, n // 2 - 1), rank_is(R(hi), xs, n // 2),
                                                   z3.Or([lo == zt(v) for v in xs]),
                                                   z3.Or([hi == zt(v) for v in xs]),
                                                   zt(m) * 2 == lo + hi)), 'median even mean', d)
    return Obligation('median n=%d even=%d%s' % (n, even, ' shape=%s' % (shape,) if shape else ''), fn, bounds='n=%d' % n)


def ob_median_width(n, w):
    def fn(ctx):
        from pydl import median
        xs = ctx.reals('x', n)
        out = median(symnp.rarray(xs), w)
        h = w // 2
        d = {'fn': 'median_w', 'n': n, 'w': w}
        ctx.require(out.shape == (n,), 'median width shape', d)
        for i in range(n):
            if i - h >= 0 and i + h <= n - 1:
                ctx.require(rank_is(out[i], xs[i - h:i + h + 1], h), 'running median interior', dict(d, i=i))
            else:
                ctx.require(out[i] == xs[i], 'running median edge untouched', dict(d, i=i))
    return Obligation('median n=%d width=%d' % (n, w), fn, bounds='n=%d width=%d' % (n, w))


def ob_median_2d(r, c, w):
    def fn(ctx):
        from pydl import median
        xs = [[ctx.real('x%d_%d' % (i, j)) for j in range(c)] for i in range(r)]
        out = median(symnp.rarray(xs), w)
        h = w // 2
        d = {'fn': 'median_2d', 'r': r, 'c': c, 'w': w}
        for i in range(r):
            for j in range(c):
                if i - h >= 0 and i + h <= r - 1 and j - h >= 0 and j + h <= c - 1:
                    win = [xs[a][b] for a in range(i - h, i + h + 1) for b in range(j - h, j + h + 1)]
                    ctx.require(rank_is(out[i, j], win, (w * w) // 2), '2-D running median interior', dict(d, i=i, j=j))
                else:
                    ctx.require(out[i, j] == xs[i][j], '2-D running median edge untouched', dict(d, i=i, j=j))
    return Obligation('median2d %dx%d width=%d' % (r, c, w), fn, bounds='%dx%d width=%d' % (r, c, w))


def ob_uniq_sorted(n, kind):
    def fn(ctx):
        from pydl import uniq
        if kind == 'real':
            xs = ctx.reals('x', n)
        else:
            xs = [ctx.bv('x%d' % i, 'i8') for i in range(n)]
        for i in range(n - 1):
            ctx.assume(xs[i] <= xs[i + 1])
        x = symnp.rarray(xs) if kind == 'real' else symnp._build_object(xs)
        res = uniq(x)
        res = [int(v) for v in np.asarray(res).tolist()]
        d = {'fn': 'uniq', 'n': n, 'kind': kind, 'result': res}
        ctx.require(all(a < b for a, b in zip(res, res[1:])), 'uniq indices increasing', d)
        ctx.require(len(res) > 0 and res[-1] == n - 1, 'uniq ends with last index', d)
        for i in range(n - 1):
            ctx.require(zt(xs[i] != xs[i + 1]) == (i in res), 'uniq run ends', dict(d, i=i))
    return Obligation('uniq sorted %s n=%d' % (kind, n), fn, bounds='n=%d' % n, expect_symbolic=n > 1)


def ob_uniq_index(n, perm):
    def fn(ctx):
        from pydl import uniq
        xs = ctx.reals('x', n)
        for a, b in zip(perm, perm[1:]):
            ctx.assume(xs[a] <= xs[b])
        idx = np.array(perm, dtype='i4')
        # split the all-equal case off so that its (known, IDL-inherited) behaviour has its own label
        alleq = n > 1 and bool(B(z3.And([zt(xs[0]) == zt(v) for v in xs[1:]])))
        sfx = ' (all elements equal, index[-1] != n-1)' if (alleq and perm[-1] != n - 1) else ''
        res = uniq(symnp.rarray(xs), idx)
        res = [int(v) for v in np.asarray(res).tolist()]
        d = {'fn': 'uniq_index', 'n': n, 'perm': list(perm), 'result': res}
        # expected: perm[k] for k where x[perm[k]] != x[perm[k+1]], plus perm[n-1]
        pos = [list(perm).index(v) if v in perm else -1 for v in res]
        ctx.require(all(p >= 0 for p in pos) and all(a < b for a, b in zip(pos, pos[1:])), 'uniq(index) order' + sfx, d)
        ctx.require(len(pos) > 0 and pos[-1] == n - 1, 'uniq(index) ends with last' + sfx, d)
        for k in range(n - 1):
            ctx.require(zt(xs[perm[k]] != xs[perm[k + 1]]) == (k in pos), 'uniq(index) run ends' + sfx, dict(d, k=k))
    return Obligation('uniq index n=%d perm=%s' % (n, ''.join(map(str, perm))), fn, bounds='n=%d' % n, expect_symbolic=n > 1)


def rebin_axis_oracle(vals, d, sample, integer):
    """vals: list (along one axis) of numbers; returns list of length d."""
    d0 = len(vals)
    if d > d0:
        m = d // d0
        out = []
        for i in range(d):
            j = i // m
            if sample:
                out.append(vals[j])
            else:
                t = Fraction(i % m, m)
                j1 = min(j + 1, d0 - 1)
                if integer:
                    out.append(('interp', vals[j], vals[j1], t))
                else:
                    out.append(vals[j] + (vals[j1] - vals[j]) * t)
        return out
    if d == d0:
        return list(vals)
    f = d0 // d
    out = []
    for i in range(d):
        if sample:
            out.append(vals[i * f])
        else:
            s = vals[i * f]
            for k in range(i * f + 1, (i + 1) * f):
                s = s + vals[k]
            out.append(('idiv', s, f) if integer else s / f)
    return out


def rebin_oracle(arr, newshape, sample):
    """float arrays only: nested application axis by axis (axis 0 first, as IDL does)."""
    a = np.array(arr, dtype=object)
    for k, d in enumerate(newshape):
        moved = np.moveaxis(a, k, -1)
        outm = np.empty(moved.shape[:-1] + (d,), dtype=object)
        for idx in np.ndindex(moved.shape[:-1]):
            res = rebin_axis_oracle(list(moved[idx]), d, sample, False)
            for i, v in enumerate(res):
                outm[idx + (i,)] = v
        a = np.moveaxis(outm, -1, k)
    return a


def ob_rebin(shape, newshape, sample):
    def fn(ctx):
        from pydl import rebin
        src = np.empty(shape, dtype=object)
        for idx in np.ndindex(*shape):
            src[idx] = ctx.real('x' + '_'.join(map(str, idx)))
        exp = rebin_oracle(src, newshape, sample)
        out = rebin(src.copy(), tuple(newshape), sample=sample)
        d = {'fn': 'rebin', 'shape': list(shape), 'new': list(newshape), 'sample': sample}
        ctx.require(tuple(out.shape) == tuple(newshape), 'rebin shape', d)
        # interpolation weights such as 1/3 are computed by the code in IEEE double (int/int
        # division at run time): allow 1e-12 relative to the sum of |inputs| for that rounding
        scale = z3.Sum([z3.If(zt(v) >= 0, zt(v), -zt(v)) for v in src.ravel().tolist()])
        dyadic = all((b // a) & ((b // a) - 1) == 0 for a, b in zip(shape, newshape) if b > a)
        for idx in np.ndindex(*newshape):
            if sample or dyadic:
                ctx.require(out[idx] == exp[idx], 'rebin value', dict(d, idx=list(idx)))
            else:
                df = zt(out[idx]) - zt(exp[idx])
                ctx.require(z3.And(df <= scale * z3.RealVal('1e-12'), -df <= scale * z3.RealVal('1e-12')),
                            'rebin value', dict(d, idx=list(idx)))
    return Obligation('rebin %s->%s sample=%d' % (shape, newshape, sample), fn, bounds='shape %s' % (shape,))


def adversarial_expansions(limit):
    """expansion factors for which the obvious float index floor((d0/d)*i) differs from the integer index
    (i*d0)//d for some i: found by a QF_BVFP query over d0 <= 8, factor <= 64 on every run (witnesses of
    an IEEE rounding effect that the exact-real model of the array values cannot see by itself)."""
    S, RM = z3.Float64(), z3.RNE()
    d0, k, i = z3.BitVec('d0', 16), z3.BitVec('k', 16), z3.BitVec('i', 16)
    s = z3.Solver()
    s.set('timeout', 120000)
    dd = d0 * k
    s.add(z3.ULE(1, d0), z3.ULE(d0, 8), z3.ULE(2, k), z3.ULE(k, 64), z3.ULT(i, dd))
    f = z3.fpDiv(RM, z3.fpUnsignedToFP(RM, d0, S), z3.fpUnsignedToFP(RM, dd, S))
    p = z3.fpMul(RM, f, z3.fpUnsignedToFP(RM, i, S))
    s.add(z3.fpToUBV(z3.RTN(), p, z3.BitVecSort(16)) != z3.UDiv(i * d0, dd))
    out = []
    while len(out) < limit and s.check() == z3.sat:
        m = s.model()
        a, b = m[d0].as_long(), m[k].as_long()
        out.append((a, a * b))
        s.add(z3.Or(d0 != a, k != b))
    return out


def ob_rebin_int(n, d, sample):
    def fn(ctx):
        from pydl import rebin
        # integer elements as unbounded ints with nominal dtype int64 (no wrap-around: |x| <= 2**40)
        xs = [ctx.int('x%d' % i, -(2 ** 40), 2 ** 40) for i in range(n)]
        out = rebin(symnp._build_object(xs), (d,), sample=sample)
        dd = {'fn': 'rebin_int', 'n': n, 'd': d, 'sample': sample}
        ctx.require(tuple(out.shape) == (d,), 'rebin(int) shape', dd)
        if d < n:
            f = n // d
            for i in range(d):
                if sample:
                    ctx.require(out[i] == xs[i * f], 'rebin(int) sample', dict(dd, i=i))
                else:
                    s = z3.Sum([zt(v) for v in xs[i * f:(i + 1) * f]])
                    o = zt(out[i])
                    ctx.require(z3.And(o * f <= s, s < (o + 1) * f), 'rebin(int) block mean (floor)', dict(dd, i=i))
        elif d == n:
            for i in range(d):
                ctx.require(out[i] == xs[i], 'rebin(int) identity', dict(dd, i=i))
        else:
            m = d // n
            for i in range(d):
                if sample or i % m == 0:
                    ctx.require(out[i] == xs[i // m], 'rebin(int) expand pick', dict(dd, i=i))
                else:
                    # in-between positions of an *integer* expansion are a float interpolation
                    # truncated to the dtype: decided by IEEE rounding at the truncation boundary,
                    # outside the exact-real model -> only bracketing is asserted
                    j, j1 = i // m, min(i // m + 1, n - 1)
                    lo = z3.If(zt(xs[j]) <= zt(xs[j1]), zt(xs[j]), zt(xs[j1]))
                    hi = z3.If(zt(xs[j]) <= zt(xs[j1]), zt(xs[j1]), zt(xs[j]))
                    ctx.require(z3.And(lo <= zt(out[i]), zt(out[i]) <= hi),
                                'rebin(int) expand interpolation bracketed', dict(dd, i=i))
    return Obligation('rebin int64 %d->%d sample=%d' % (n, d, sample), fn, bounds='n=%d, |x|<=2^40' % n)


def ob_rebin_errors():
    def fn(ctx):
        from pydl import rebin
        x0 = ctx.real('x0')
        cases = [((4,), (3,)), ((3,), (4,)), ((4,), (2, 2)), ((2, 2), (4,)), ((2, 3), (3, 3)), ((6,), (4,))]
        for shape, new in cases:
            src = np.empty(shape, dtype=object)
            src.fill(x0)
            try:
                rebin(src, new)
                ok = False
            except ValueError:
                ok = True
            ctx.require(ok, 'rebin rejects %s->%s with ValueError' % (shape, new),
                        {'fn': 'rebin_err', 'shape': list(shape), 'new': list(new)})
        ctx.require(x0 == x0, 'symbolic touch')
    return Obligation('rebin invalid shapes', fn, bounds='6 shape pairs', expect_symbolic=False)


def obligations(tier, seed):
    obs = []
    N = 6 if tier == 'quick' else 9
    for n in range(1, N + 1):
        for w in range(1, n + 1):
            width = w + 1 if w % 2 == 0 else w
            if width > n:
                continue
            for et in (False, True):
                obs.append(ob_smooth(n, w, et))
    NM = 5 if tier == 'quick' else 7
    for n in range(1, NM + 1):
        for even in (False, True):
            obs.append(ob_median_scalar(n, even))
    # N-D input without a width: the even / odd rule is that of the total element count, whatever the first axis is
    for shape in ([(3, 2), (2, 3), (1, 4), (3, 1)] if tier == 'quick' else [(3, 2), (2, 3), (1, 4), (3, 1), (1, 2, 2), (3, 2, 1), (2, 2)]):
        for even in (False, True):
            obs.append(ob_median_scalar(int(np.prod(shape)), even, shape))
    NW = 5 if tier == 'quick' else 7
    for n in range(1, NW + 1):
        for w in range(3, n + 1, 2):
            obs.append(ob_median_width(n, w))
    obs.append(ob_median_2d(3, 3, 3))
    obs.append(ob_median_2d(3, 5, 3))        # non-square, both ways: the edge rule uses each axis' own length
    obs.append(ob_median_2d(5, 3, 3))
    if tier != 'quick':
        obs.append(ob_median_2d(3, 4, 3))
        obs.append(ob_median_2d(4, 3, 3))
        obs.append(ob_median_2d(4, 6, 3))
        obs.append(ob_median_2d(5, 5, 5))
    NU = 5 if tier == 'quick' else 7
    for n in range(1, NU + 1):
        obs.append(ob_uniq_sorted(n, 'real'))
        obs.append(ob_uniq_sorted(n, 'int'))
    for n in range(1, 4 if tier == 'quick' else 5):
        for perm in itertools.permutations(range(n)):
            obs.append(ob_uniq_index(n, perm))
    # rebin: every expand/keep/shrink combination per axis
    one_d = [(n, d) for n in range(1, 5) for d in range(1, 13) if (d % n == 0 or n % d == 0) and d <= 3 * n]
    for n, d in one_d:
        for sample in (False, True):
            obs.append(ob_rebin((n,), (d,), sample))
            if n > 1 or d > 1:
                obs.append(ob_rebin_int(n, d, sample))
    axes2 = [(2, 4), (2, 2), (2, 1), (3, 6), (4, 2), (3, 1), (1, 3)] if tier == 'quick' else \
        [(n, d) for n in range(1, 5) for d in (1, 2, 3, 4, 6, 8, 9, 12) if (d % n == 0 or n % d == 0) and d <= 3 * n]
    for (n0, d0), (n1, d1) in itertools.product(axes2, axes2):
        if tier == 'quick' and (n0 * n1 > 8):
            continue
        for sample in ((False,) if tier == 'quick' else (False, True)):
            obs.append(ob_rebin((n0, n1), (d0, d1), sample))
    axes3 = [(2, 4), (2, 2), (2, 1)] if tier == 'quick' else [(2, 4), (2, 2), (2, 1), (3, 1), (1, 2), (3, 6)]
    for combo in itertools.product(axes3, repeat=3):
        shape = tuple(c[0] for c in combo)
        new = tuple(c[1] for c in combo)
        obs.append(ob_rebin(shape, new, False))
    # expansion factors chosen by the solver: those where a float-computed source index would be off by one
    for n, d in adversarial_expansions(1 if tier == 'quick' else 4):
        obs.append(ob_rebin((n,), (d,), True))
        if tier != 'quick':
            obs.append(ob_rebin((n,), (d,), False))
    obs.append(ob_rebin_errors())
    return obs


# ------------------------------------------------------------------ replay on the real code
def _f(v):
    if isinstance(v, dict):
        return int(v['num']) / int(v['den'])
    return float(v)


def replay(rec):
    """returns True when the counterexample reproduces on the uninstrumented pydl."""
    import pydl
    d = rec['detail'] or {}
    inp = rec['inputs'] or {}
    fn = d.get('fn')
    tol = 1e-9

    def close(a, b):
        return abs(a - b) <= tol * max(1.0, abs(a), abs(b))
    if fn == 'smooth':
        xs = [_f(inp['x%d' % i]) for i in range(d['n'])]
        out = pydl.smooth(np.array(xs), d['w'], edge_truncate=d['et'])
        exp = smooth_oracle(xs, d['w'], d['et'])
        return not all(close(a, b) for a, b in zip(out.tolist(), exp))
    if fn == 'median':
        xs = [_f(inp['x%d' % i]) for i in range(d['n'])]
        arr = np.array(xs).reshape(d['shape']) if d.get('shape') else np.array(xs)
        m = float(pydl.median(arr, even=d['even']))
        s = sorted(xs)
        n = len(s)
        exp = s[n // 2] if (n % 2 == 1 or not d['even']) else (s[n // 2 - 1] + s[n // 2]) / 2
        return not close(m, exp)
    if fn == 'median_w':
        xs = [_f(inp['x%d' % i]) for i in range(d['n'])]
        out = pydl.median(np.array(xs), d['w']).tolist()
        h = d['w'] // 2
        n = len(xs)
        exp = [sorted(xs[i - h:i + h + 1])[h] if (i - h >= 0 and i + h <= n - 1) else xs[i] for i in range(n)]
        return not all(close(a, b) for a, b in zip(out, exp))
    if fn == 'median_2d':
        r, c, w = d['r'], d['c'], d['w']
        xs = np.array([[_f(inp['x%d_%d' % (i, j)]) for j in range(c)] for i in range(r)])
        out = pydl.median(xs, w)
        h = w // 2
        for i in range(r):
            for j in range(c):
                if i - h >= 0 and i + h <= r - 1 and j - h >= 0 and j + h <= c - 1:
                    e = sorted(xs[i - h:i + h + 1, j - h:j + h + 1].ravel().tolist())[(w * w) // 2]
                else:
                    e = xs[i, j]
                if not close(float(out[i, j]), e):
                    return True
        return False
    if fn in ('uniq', 'uniq_index'):
        n = d['n']
        if fn == 'uniq' and d['kind'] == 'int':
            xs = [int(inp['x%d' % i]) for i in range(n)]
            xs = [v - (1 << 64) if v >= (1 << 63) else v for v in xs]
            x = np.array(xs, dtype='i8')
        else:
            x = np.array([_f(inp['x%d' % i]) for i in range(n)])
        if fn == 'uniq':
            res = pydl.uniq(x).tolist()
            exp = [i for i in range(n - 1) if x[i] != x[i + 1]] + [n - 1]
        else:
            perm = d['perm']
            res = pydl.uniq(x, np.array(perm, dtype='i4')).tolist()
            exp = [perm[k] for k in range(n - 1) if x[perm[k]] != x[perm[k + 1]]] + [perm[n - 1]]
        return res != exp
    if fn == 'rebin':
        shape = tuple(d['shape'])
        src = np.empty(shape)
        for idx in np.ndindex(*shape):
            src[idx] = _f(inp['x' + '_'.join(map(str, idx))])
        out = pydl.rebin(src, tuple(d['new']), sample=d['sample'])
        exp = rebin_oracle([[Fraction(v) for v in row] if isinstance(row, list) else Fraction(row)
                            for row in src.tolist()] if False else
                           np.vectorize(lambda v: Fraction(float(v)), otypes=[object])(src), d['new'], d['sample'])
        if tuple(out.shape) != tuple(d['new']):
            return True
        return not all(close(float(out[idx]), float(exp[idx])) for idx in np.ndindex(*out.shape))
    if fn == 'rebin_int':
        n = d['n']
        xs = [int(inp['x%d' % i]) for i in range(n)]
        out = pydl.rebin(np.array(xs, dtype='i8'), (d['d'],), sample=d['sample']).tolist()
        dd = d['d']
        if dd < n:
            f = n // dd
            exp = [xs[i * f] if d['sample'] else sum(xs[i * f:(i + 1) * f]) // f for i in range(dd)]
            return out != exp
        if dd == n:
            return out != xs
        m = dd // n
        exp = []
        for i in range(dd):
            j, j1, a = i // m, min(i // m + 1, n - 1), i % m
            if d['sample'] or a == 0:
                exp.append((xs[j], xs[j]))
            else:
                exp.append((min(xs[j], xs[j1]), max(xs[j], xs[j1])))
        return any(not (lo <= o <= hi) for o, (lo, hi) in zip(out, exp))
    if fn == 'rebin_err':
        try:
            pydl.rebin(np.zeros(tuple(d['shape'])), tuple(d['new']))
            return True
        except ValueError:
            return False
    return False
