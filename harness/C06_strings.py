"""C06 (string forms): run2d given as 'vN_M_P' or as an integer string, IDs given as decimal strings."""
import numpy as np
import z3

from pathsym import core, symnp, sstr
from pathsym.core import R, B, BV, Z, zt
from pathsym.sstr import SStr
from .common import Obligation
from .yannylib import S, text_eq


def _digits(ctx, name, n):
    ds = []
    for k in range(n):
        t = z3.Int('%s_d%d' % (name, k))
        ctx.inputs['%s_d%d' % (name, k)] = t
        ctx.add(z3.And(t >= 48, t <= 57))
        ctx.declare_domain(t, range(48, 58))
        ds.append(t)
    return ds


def _val(ds):
    v = z3.IntVal(0)
    for t in ds:
        v = v * 10 + ((t - 48) if not isinstance(t, str) else (ord(t) - 48))
    return z3.simplify(v)


def _render(ctx, ds):
    """decimal text of the number spelled by digits ds, without leading zeros (harness-side)"""
    k = 0
    while k < len(ds) - 1 and (ds[k] == '0' if isinstance(ds[k], str) else bool(B(ds[k] == 48))):
        k += 1
    return ds[k:]


def ob_run2d_v(lenN, lenM, lenP, low, fixed=False):
    def fn(ctx):
        from pydl.pydlutils.sdss import sdss_specobjid, unwrap_specobjid
        dN, dM, dP = _digits(ctx, 'N', lenN), _digits(ctx, 'M', lenM), _digits(ctx, 'P', lenP)
        if fixed:
            # the digits are concretised on demand (the solver enumerates all 10^k spellings)
            dN, dM, dP = ([z3.IntVal(ctx.concretize(t)) for t in ds] for ds in (dN, dM, dP))
            dN, dM, dP = ([chr(t.as_long()) for t in ds] for ds in (dN, dM, dP))
        run2d = S('v', dN, '_', dM, '_', dP)
        plate, fiber, mjd = ctx.int64('plate'), ctx.int64('fiber'), ctx.int64('mjd')
        for v, hi in ((plate, 2 ** 14), (fiber, 2 ** 12)):
            ctx.add(z3.And(v.v >= 0, v.v < hi))
        ctx.add(z3.And(mjd.v >= 50000, mjd.v < 50000 + 2 ** 14))
        if fixed == 1:      # quick tier: concrete plate / fibre / MJD as well
            ctx.add(z3.And(plate.v == 4055, fiber.v == 408, mjd.v == 55359))
        d = {'fn': 'run2d_v', 'lenN': lenN, 'lenM': lenM, 'lenP': lenP, 'low': low}
        ctx.detail = d
        kw = {}
        lowv = None
        if low:
            lowv = ctx.int64(low)
            ctx.add(z3.And(lowv.v >= 0, lowv.v < 1024))
            kw[low] = lowv
        r = (_val(dN) - 5) * 10000 + _val(dM) * 100 + _val(dP)
        try:
            out = sdss_specobjid(plate, fiber, mjd, run2d, **kw)
            raised = None
        except ValueError:
            raised = 'ValueError'
        except Exception as e:
            ctx.fail('specobjid(vN_M_P): %s instead of ValueError for an out-of-range run2d' % type(e).__name__, dict(d, exception=type(e).__name__))
            return
        inrange = z3.And(r >= 0, r < 2 ** 14)
        if raised:
            ctx.require(z3.Not(inrange), 'specobjid(vN_M_P): ValueError only for an out-of-range run2d', d)
            return
        ctx.require(inrange, 'specobjid(vN_M_P): out-of-range run2d must be rejected', d)
        exp = (z3.Extract(63, 0, plate.v) << 50) | (z3.Extract(63, 0, fiber.v) << 38) | (z3.Extract(63, 0, mjd.v - 50000) << 24) | \
            (z3.Int2BV(r, 64) << 10) | (z3.Extract(63, 0, lowv.v) if low else z3.BitVecVal(0, 64))
        ctx.require(out[0].term == exp, 'specobjid(vN_M_P): documented layout with run2d = (N-5)*10000 + M*100 + P', d)
        # and back: the string form of run2d (components without leading zeros)
        un = unwrap_specobjid(out, specLineIndex=(low == 'index'))
        got = un.run2d[0]
        # N-5 must be 0 or 1 for the v-form to be recoverable; the encoded value determines N, M, P
        rn, rm, rp = _render(ctx, dN), _render(ctx, dM), _render(ctx, dP)
        expected = S('v', rn, '_', rm, '_', rp)
        ctx.require(text_eq(got, expected), 'unwrap_specobjid: run2d read back as vN_M_P with the packed components', d)
        ctx.require(z3.SignExt(32, un.plate[0].term) == z3.Extract(63, 0, plate.v), 'unwrap_specobjid: plate', d)
    return Obligation('specobjid run2d=vN_M_P lens=%d,%d,%d low=%s fixed=%d' % (lenN, lenM, lenP, low, fixed), fn,
                      bounds='every digit choice, every in-range plate/fiber/mjd', max_paths=200000, solver_timeout_ms=120000, max_seconds=1700)


def ob_run2d_intstring(nd):
    def fn(ctx):
        from pydl.pydlutils.sdss import sdss_specobjid
        ds = _digits(ctx, 'r', nd)
        run2d = SStr.mk(ds)
        d = {'fn': 'run2d_int', 'nd': nd}
        ctx.detail = d
        r = _val(ds)
        try:
            out = sdss_specobjid(4055, 408, 55359, run2d)
            raised = None
        except ValueError:
            raised = 'ValueError'
        inrange = z3.And(r >= 0, r < 2 ** 14)
        if raised:
            ctx.require(z3.Not(inrange), 'specobjid(integer string): ValueError only for an out-of-range run2d', d)
            return
        ctx.require(inrange, 'specobjid(integer string): out-of-range run2d must be rejected', d)
        o = out[0]
        ot = o.term if isinstance(o, BV) else z3.BitVecVal(int(o), 64)
        exp = z3.BitVecVal((4055 << 50) | (408 << 38) | (5359 << 24), 64) | (z3.Int2BV(r, 64) << 10)
        ctx.require(ot == exp, 'specobjid(integer string) == specobjid(integer)', d)
    return Obligation('specobjid run2d integer string digits=%d' % nd, fn, bounds='every %d-digit string' % nd, solver_timeout_ms=120000)


def ob_run2d_array(lenM):
    """run2d given as an ARRAY of 'vN_M_P' strings (what unwrap_specobjid returns) next to array plate / fibre / MJD"""
    def fn(ctx):
        from pydl.pydlutils.sdss import sdss_specobjid
        dN, dM, dP = _digits(ctx, 'N', 1), _digits(ctx, 'M', lenM), _digits(ctx, 'P', 1)
        dN, dM, dP = ([chr(int(ctx.concretize(t))) for t in ds] for ds in (dN, dM, dP))
        run2d = S('v', dN, '_', dM, '_', dP)
        d = {'fn': 'run2d_array', 'lenM': lenM}
        ctx.detail = d
        plate, fiber, mjd = (symnp._build_object([BV(v, 'i8')]) for v in (4055, 408, 55359))
        r = (int(''.join(dN)) - 5) * 10000 + int(''.join(dM)) * 100 + int(''.join(dP))
        arr = np.array([run2d]) if isinstance(run2d, str) else symnp._build_object([run2d])
        try:
            out = sdss_specobjid(plate, fiber, mjd, arr)
            raised = None
        except ValueError:
            raised = 'ValueError'
        if raised:
            ctx.require(not 0 <= r < 2 ** 14, 'specobjid(array of vN_M_P): ValueError only for an out-of-range run2d', dict(d, r=r))
            return
        ctx.require(0 <= r < 2 ** 14, 'specobjid(array of vN_M_P): out-of-range run2d must be rejected', dict(d, r=r))
        o = out[0]
        ot = o.term if isinstance(o, BV) else z3.BitVecVal(int(o), 64)
        exp = (4055 << 50) | (408 << 38) | (5359 << 24) | (r << 10)
        ctx.require(z3.simplify(ot == z3.BitVecVal(exp, 64)), 'specobjid(array of vN_M_P) == specobjid(scalar string) element by element', dict(d, r=r))
        ctx.require(z3.BoolVal(True) == (plate[0].term == plate[0].term), 'symbolic touch')
    return Obligation('specobjid run2d array of strings lenM=%d' % lenM, fn, bounds='every digit choice', expect_symbolic=False, solver_timeout_ms=60000)


def ob_decimal_ids(kind, nd):
    def fn(ctx):
        from pydl.pydlutils.sdss import unwrap_specobjid
        from pydl.photoop.photoobj import unwrap_objid
        ds = _digits(ctx, 'id', nd)
        ctx.add(ds[0] != 48) if nd > 1 else None
        v = _val(ds)
        lim = 2 ** 64 if kind == 'spec' else 2 ** 63
        ctx.add(v < lim)
        d = {'fn': 'decimal', 'kind': kind, 'nd': nd}
        ctx.detail = d
        strs = symnp._build_object([SStr.mk(ds)])
        if kind == 'spec':
            a = unwrap_specobjid(strs, run2d_integer=True)
            b = unwrap_specobjid(symnp._build_object([BV(z3.Int2BV(v, 64), 'u8')]), run2d_integer=True)
            names = ('plate', 'fiber', 'mjd', 'run2d', 'line')
        else:
            a = unwrap_objid(strs)
            b = unwrap_objid(symnp._build_object([BV(z3.Int2BV(v, 64), 'i8')]))
            names = ('skyversion', 'rerun', 'run', 'camcol', 'firstfield', 'frame', 'id')
        for nm in names:
            ctx.require(a[nm][0].term == b[nm][0].term, 'unwrap of a decimal-string ID == unwrap of the integer it spells', dict(d, field=nm))
    return Obligation('unwrap %s decimal string digits=%d' % (kind, nd), fn, bounds='every %d-digit decimal string' % nd, solver_timeout_ms=120000)


def obligations(tier, seed):
    q = tier == 'quick'
    obs = [ob_run2d_v(1, 1, 1, None, fixed=(1 if q else 0)), ob_run2d_array(1), ob_run2d_intstring(3), ob_run2d_intstring(5),
           ob_decimal_ids('spec', 19), ob_decimal_ids('obj', 19)]
    if not q:
        # fixed=2: every spelling of the digits is enumerated by the solver, plate / fibre / MJD / line stay symbolic 64-bit values
        obs += [ob_run2d_v(1, 2, 1, 'line', fixed=2), ob_run2d_v(1, 1, 2, 'index', fixed=2), ob_run2d_v(2, 1, 1, None, fixed=2),
                ob_run2d_intstring(1), ob_run2d_intstring(4),
                ob_decimal_ids('spec', 20), ob_decimal_ids('spec', 5), ob_decimal_ids('obj', 10)]
    return obs


def replay(rec):
    from pydl.pydlutils.sdss import sdss_specobjid, unwrap_specobjid
    d = rec['detail'] or {}
    inp = rec['inputs'] or {}
    fn = d.get('fn')

    def digs(name, n):
        return ''.join(chr(int(inp.get('%s_d%d' % (name, k), 48))) for k in range(n))

    def s64(v):
        v = int(v)
        return v - (1 << 64) if v >= (1 << 63) else v
    if fn == 'run2d_v':
        N, M, P = digs('N', d['lenN']), digs('M', d['lenM']), digs('P', d['lenP'])
        run2d = 'v%s_%s_%s' % (N, M, P)
        plate, fiber, mjd = s64(inp.get('plate', 1)), s64(inp.get('fiber', 1)), s64(inp.get('mjd', 55000))
        kw = {d['low']: s64(inp.get(d['low'], 0))} if d['low'] else {}
        r = (int(N) - 5) * 10000 + int(M) * 100 + int(P)
        inrange = 0 <= r < 2 ** 14
        try:
            out = sdss_specobjid(plate, fiber, mjd, run2d, **kw)
        except ValueError:
            return inrange
        except Exception:
            return True
        if not inrange:
            return True
        exp = (plate << 50) | (fiber << 38) | ((mjd - 50000) << 24) | (r << 10) | (kw[d['low']] if d['low'] else 0)
        if int(out[0]) != exp:
            return True
        un = unwrap_specobjid(out, specLineIndex=(d['low'] == 'index'))
        return un.run2d[0] != 'v%d_%d_%d' % (int(N), int(M), int(P)) or int(un.plate[0]) != plate
    if fn == 'run2d_array':
        s_ = 'v%s_%s_%s' % (digs('N', 1), digs('M', d['lenM']), digs('P', 1))
        r = (int(digs('N', 1)) - 5) * 10000 + int(digs('M', d['lenM'])) * 100 + int(digs('P', 1))
        try:
            out = sdss_specobjid(np.array([4055]), np.array([408]), np.array([55359]), np.array([s_]))
        except ValueError:
            return 0 <= r < 2 ** 14
        if not 0 <= r < 2 ** 14:
            return True
        return int(out[0]) != ((4055 << 50) | (408 << 38) | (5359 << 24) | (r << 10))
    if fn == 'run2d_int':
        s = digs('r', d['nd'])
        r = int(s)
        try:
            out = sdss_specobjid(4055, 408, 55359, s)
        except ValueError:
            return 0 <= r < 2 ** 14
        if not 0 <= r < 2 ** 14:
            return True
        return int(out[0]) != ((4055 << 50) | (408 << 38) | (5359 << 24) | (r << 10))
    if fn == 'decimal':
        from pydl.photoop.photoobj import unwrap_objid
        s = digs('id', d['nd'])
        if d['kind'] == 'spec':
            a = unwrap_specobjid(np.array([s]), run2d_integer=True)
            b = unwrap_specobjid(np.array([int(s)], dtype='u8'), run2d_integer=True)
        else:
            a = unwrap_objid(np.array([s]))
            b = unwrap_objid(np.array([int(s)], dtype='i8'))
        return a.tolist() != b.tolist()
    return False
