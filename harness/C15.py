"""C15 - least-squares and factorisation solvers return the optimum they claim (small part: the
HMF update steps).  computechi2 (SVD), pcomp / HMF.reorder (eigh), pca_solve and the k-means
seeding are LAPACK / C code behind FFI and are NOT claimed."""
from fractions import Fraction
import numpy as np
import z3

from pathsym import core, symnp
from pathsym.core import R, B, zt
from .common import Obligation

PID = 'C15'

META = {
    'functions_encoded': ['pydl.pydlspec2d.spec1d.HMF.__init__', 'HMF.astep', 'HMF.gstep', 'HMF.astepnn', 'HMF.gstepnn', 'HMF.normbase',
                          'HMF.model', 'HMF.resid'],
    'stubs': ['numpy.linalg.solve -> exact rational solve (contract of LAPACK gesv)'],
    'assumptions': ['the spectra matrix is symbolic; the other factor and the inverse variances are concrete exact rationals (the solve needs a concrete matrix)',
                    'floats are exact reals'],
    'outside_bounds': 'computechi2 (numpy.linalg.svd), pcomp and HMF.reorder (eigh), pca_solve, k-means seeding and seed determinism, '
                      '"caller\'s arrays not modified": deciding computation is LAPACK/C behind FFI or an aliasing fact - not claimed',
}


def F(a, b=1):
    return Fraction(a, b)


def _mats(N, M, K):
    g = [[F(1 + ((3 * k + 2 * j) % 5), 2 + k) for j in range(M)] for k in range(K)]
    a = [[F(2 + ((i + 2 * k) % 3), 1 + i) for k in range(K)] for i in range(N)]
    w = [[F(0) if (N > K + 0 and (i + j) % 4 == 3 and i == N - 1) else F(1 + (i + 2 * j) % 3) for j in range(M)] for i in range(N)]
    return a, g, w


def ob_astep(N, M, K):
    def fn(ctx):
        from pydl.pydlspec2d.spec1d import HMF
        a0, g, w = _mats(N, M, K)
        s = [[ctx.real('s%d_%d' % (i, j)) for j in range(M)] for i in range(N)]
        d = {'fn': 'astep', 'N': N, 'M': M, 'K': K}
        ctx.detail = d
        h = HMF(symnp.rarray(s), symnp.rarray(w), K=K)
        h.g = symnp.rarray(g)
        a = h.astep()
        ctx.require(a.shape == (N, K), 'astep: shape', d)
        for i in range(N):
            for k in range(K):
                grad = z3.Sum([z3.RealVal(str(w[i][j] * g[k][j])) * (zt(s[i][j]) - z3.Sum([zt(R.lift(a[i, kk])) * z3.RealVal(str(g[kk][j])) for kk in range(K)]))
                               for j in range(M)])
                ctx.require(grad == 0, 'astep: chi-square gradient with respect to the coefficients vanishes (exact weighted optimum)', dict(d, i=i, k=k))
    return Obligation('HMF.astep N=%d M=%d K=%d' % (N, M, K), fn, bounds='every %dx%d spectra matrix' % (N, M))


def ob_gstep(N, M, K, eps):
    def fn(ctx):
        from pydl.pydlspec2d.spec1d import HMF
        a, g0, w = _mats(N, M, K)
        s = [[ctx.real('s%d_%d' % (i, j)) for j in range(M)] for i in range(N)]
        d = {'fn': 'gstep', 'N': N, 'M': M, 'K': K, 'eps': str(eps)}
        ctx.detail = d
        h = HMF(symnp.rarray(s), symnp.rarray(w), K=K, epsilon=None if eps is None else R(eps))
        h.a = symnp.rarray(a)
        h.g = symnp.rarray(g0)
        g = h.gstep()
        ctx.require(g.shape == (K, M), 'gstep: shape', d)
        e = F(0) if eps is None else eps
        for j in range(M):
            for k in range(K):
                chi = z3.Sum([z3.RealVal(str(w[i][j] * a[i][k])) * (zt(s[i][j]) - z3.Sum([z3.RealVal(str(a[i][kk])) * zt(R.lift(g[kk, j])) for kk in range(K)]))
                              for i in range(N)])
                pen = z3.RealVal(0)
                if e > 0:
                    if j > 0:
                        pen = pen + z3.RealVal(str(e)) * (zt(R.lift(g[k, j])) - z3.RealVal(str(g0[k][j - 1])))
                    if j < M - 1:
                        pen = pen + z3.RealVal(str(e)) * (zt(R.lift(g[k, j])) - z3.RealVal(str(g0[k][j + 1])))
                ctx.require(chi - pen == 0, 'gstep: gradient of chi-square (+ smoothness penalty with the neighbouring columns held) vanishes', dict(d, j=j, k=k))
    return Obligation('HMF.gstep N=%d M=%d K=%d eps=%s' % (N, M, K, eps), fn, bounds='every %dx%d spectra matrix' % (N, M))


def ob_nn(N, M, K, eps):
    def fn(ctx):
        from pydl.pydlspec2d.spec1d import HMF
        a, g0, w = _mats(N, M, K)
        s = [[ctx.real('s%d_%d' % (i, j)) for j in range(M)] for i in range(N)]
        for row in s:
            for v in row:
                ctx.add(zt(v) >= 0)
        d = {'fn': 'nn', 'N': N, 'M': M, 'K': K, 'eps': str(eps)}
        ctx.detail = d
        h = HMF(symnp.rarray(s), symnp.rarray(w), K=K, nonnegative=True, epsilon=None if eps is None else R(eps))
        h.a = symnp.rarray(a)
        h.g = symnp.rarray(g0)
        an = h.astepnn()
        gn = h.gstepnn()
        for i in range(N):
            for k in range(K):
                ctx.require(zt(R.lift(an[i, k])) >= 0, 'astepnn keeps the coefficients non-negative for non-negative data', dict(d, i=i, k=k))
        for k in range(K):
            for j in range(M):
                ctx.require(zt(R.lift(gn[k, j])) >= 0, 'gstepnn keeps the components non-negative for non-negative data', dict(d, k=k, j=j))
        # fixed point: if the data are exactly a.g the multiplicative update leaves a unchanged
    return Obligation('HMF non-negative steps N=%d M=%d K=%d eps=%s' % (N, M, K, eps), fn, bounds='every non-negative %dx%d spectra matrix' % (N, M))


def ob_normbase(K, M):
    def fn(ctx):
        from pydl.pydlspec2d.spec1d import HMF
        g = [[ctx.real('g%d_%d' % (k, j)) for j in range(M)] for k in range(K)]
        for row in g:
            ctx.add(z3.Or([zt(v) != 0 for v in row]))
        d = {'fn': 'normbase', 'K': K, 'M': M}
        ctx.detail = d
        h = HMF(symnp.zeros((2, M)), symnp.ones((2, M)), K=K)
        h.g = symnp.rarray(g)
        r = h.normbase()
        ctx.require(r.shape == (K,), 'normbase: one value per component', d)
        for k in range(K):
            rk = zt(R.lift(r[k]))
            ms = z3.Sum([zt(v) * zt(v) for v in g[k]]) / M
            ctx.require(z3.And(rk > 0, rk * rk == ms), 'normbase: dividing by it gives unit rms components', dict(d, k=k))
    return Obligation('HMF.normbase K=%d M=%d' % (K, M), fn, bounds='every non-zero component matrix', solver_timeout_ms=120000)


def obligations(tier, seed):
    q = tier == 'quick'
    obs = []
    shapes = [(2, 3, 1), (2, 4, 2), (3, 4, 2)] if q else [(2, 3, 1), (2, 4, 2), (3, 4, 2), (3, 5, 2), (3, 4, 3), (4, 6, 2)]
    for N, M, K in shapes:
        obs.append(ob_astep(N, M, K))
        for eps in (None, F(0), F(1, 2)):
            obs.append(ob_gstep(N, M, K, eps))
        obs.append(ob_nn(N, M, K, None))
        obs.append(ob_nn(N, M, K, F(1, 2)))
    obs.append(ob_normbase(1, 3))
    obs.append(ob_normbase(2, 2))
    return obs


def _f(v):
    if isinstance(v, dict):
        return int(v['num']) / int(v['den'])
    return float(v)


def replay(rec):
    import warnings
    warnings.simplefilter('ignore')
    from pydl.pydlspec2d.spec1d import HMF
    d = rec['detail'] or {}
    inp = rec['inputs'] or {}
    fn = d.get('fn')
    if fn == 'normbase':
        K, M = d['K'], d['M']
        g = np.array([[_f(inp.get('g%d_%d' % (k, j), 1)) for j in range(M)] for k in range(K)])
        h = HMF(np.zeros((2, M)), np.ones((2, M)), K=K)
        h.g = g
        r = h.normbase()
        return bool(np.abs(((g / r[:, None]) ** 2).mean(1) - 1).max() > 1e-9)
    N, M, K = d['N'], d['M'], d['K']
    a, g, w = _mats(N, M, K)
    a, g, w = (np.array([[float(v) for v in row] for row in m]) for m in (a, g, w))
    s = np.array([[_f(inp.get('s%d_%d' % (i, j), 1)) for j in range(M)] for i in range(N)])
    eps = None if d.get('eps', 'None') == 'None' else float(Fraction(d['eps']))
    scale = max(1.0, np.abs(s).max())
    if fn == 'astep':
        h = HMF(s, w, K=K)
        h.g = g
        an = h.astep()
        grad = ((s - an @ g) * w) @ g.T
        return bool(np.abs(grad).max() > 1e-8 * scale)
    if fn == 'gstep':
        h = HMF(s, w, K=K, epsilon=eps)
        h.a, h.g = a, g.copy()
        gn = h.gstep()
        grad = a.T @ ((s - a @ gn) * w)
        if eps:
            pen = np.zeros_like(gn)
            pen[:, 1:] += eps * (gn[:, 1:] - g[:, :-1])
            pen[:, :-1] += eps * (gn[:, :-1] - g[:, 1:])
            grad = grad - pen
        return bool(np.abs(grad).max() > 1e-8 * scale)
    if fn == 'nn':
        h = HMF(s, w, K=K, nonnegative=True, epsilon=eps)
        h.a, h.g = a, g.copy()
        return bool((h.astepnn() < 0).any() or (h.gstepnn() < 0).any())
    return False
