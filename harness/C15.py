"""C15 - least-squares and factorisation solvers return the optimum they claim (small part: the
HMF update steps and computechi2 for 2-parameter systems).  pcomp / HMF.reorder (eigh), pca_solve and the
k-means seeding are LAPACK / C code behind FFI and are NOT claimed."""
from fractions import Fraction
import numpy as np
import z3

from pathsym import core, symnp
from pathsym.core import R, B, zt
from .common import Obligation

PID = 'C15'

META = {
    'functions_encoded': ['pydl.pydlutils.math.computechi2 (all properties)', 'pydl.pydlspec2d.spec1d.HMF.__init__', 'HMF.astep', 'HMF.gstep', 'HMF.astepnn', 'HMF.gstepnn', 'HMF.normbase',
                          'HMF.model', 'HMF.resid'],
    'stubs': ['numpy.linalg.solve -> exact rational solve (contract of LAPACK gesv)',
              'numpy.linalg.svd -> contract stub: the harness names the decomposition of the matrix it built (rotation x diagonal), the stub '
              'verifies U diag(w) Vh == input, orthonormality, sign and order before handing it out'],
    'assumptions': ['the spectra matrix is symbolic; the other factor and the inverse variances are concrete exact rationals (the solve needs a concrete matrix)',
                    'floats are exact reals'],
    'outside_bounds': 'computechi2 with more than 2 parameters or rank-deficient systems; pcomp and HMF.reorder (eigh), pca_solve, k-means seeding and seed determinism, '
                      '"caller\'s arrays not modified": deciding computation is LAPACK/C behind FFI or an aliasing fact - not claimed',
}


def F(a, b=1):
    return Fraction(a, b)


def _mats(N, M, K):
    g = [[F(1 + ((3 * k + 2 * j) % 5), 2 + k) for j in range(M)] for k in range(K)]
    a = [[F(2 + ((i + 2 * k) % 3), 1 + i) for k in range(K)] for i in range(N)]
    w = [[F(0) if (N > K + 0 and (i + j) % 4 == 3 and i == N - 1) else F(1 + (i + 2 * j) % 3) for j in range(M)] for i in range(N)]
    return a, g, w


def ob_astep(N, M, K):
    def fn(ctx):
        from pydl.pydlspec2d.spec1d import HMF
        a0, g, w = _mats(N, M, K)
        s = [[ctx.real('s%d_%d' % (i, j)) for j in range(M)] for i in range(N)]
        d = {'fn': 'astep', 'N': N, 'M': M, 'K': K}
        ctx.detail = d
        h = HMF(symnp.rarray(s), symnp.rarray(w), K=K)
        h.g = symnp.rarray(g)
        a = h.astep()
        ctx.require(a.shape == (N, K), 'astep: shape', d)
        for i in range(N):
            for k in range(K):
                grad = z3.Sum([z3.RealVal(str(w[i][j] * g[k][j])) * (zt(s[i][j]) - z3.Sum([zt(R.lift(a[i, kk])) * z3.RealVal(str(g[kk][j])) for kk in range(K)]))
                               for j in range(M)])
                ctx.require(grad == 0, 'astep: chi-square gradient with respect to the coefficients vanishes (exact weighted optimum)', dict(d, i=i, k=k))
    return Obligation('HMF.astep N=%d M=%d K=%d' % (N, M, K), fn, bounds='every %dx%d spectra matrix' % (N, M))


def ob_gstep(N, M, K, eps):
    def fn(ctx):
        from pydl.pydlspec2d.spec1d import HMF
        a, g0, w = _mats(N, M, K)
        s = [[ctx.real('s%d_%d' % (i, j)) for j in range(M)] for i in range(N)]
        d = {'fn': 'gstep', 'N': N, 'M': M, 'K': K, 'eps': str(eps)}
        ctx.detail = d
        h = HMF(symnp.rarray(s), symnp.rarray(w), K=K, epsilon=None if eps is None else R(eps))
        h.a = symnp.rarray(a)
        h.g = symnp.rarray(g0)
        g = h.gstep()
        ctx.require(g.shape == (K, M), 'gstep: shape', d)
        e = F(0) if eps is None else eps
        for j in range(M):
            for k in range(K):
                chi = z3.Sum([z3.RealVal(str(w[i][j] * a[i][k])) * (zt(s[i][j]) - z3.Sum([z3.RealVal(str(a[i][kk])) * zt(R.lift(g[kk, j])) for kk in range(K)]))
                              for i in range(N)])
                pen = z3.RealVal(0)
                if e > 0:
                    if j > 0:
                        pen = pen + z3.RealVal(str(e)) * (zt(R.lift(g[k, j])) - z3.RealVal(str(g0[k][j - 1])))
                    if j < M - 1:
                        pen = pen + z3.RealVal(str(e)) * (zt(R.lift(g[k, j])) - z3.RealVal(str(g0[k][j + 1])))
                ctx.require(chi - pen == 0, 'gstep: gradient of chi-square (+ smoothness penalty with the neighbouring columns held) vanishes', dict(d, j=j, k=k))
    return Obligation('HMF.gstep N=%d M=%d K=%d eps=%s' % (N, M, K, eps), fn, bounds='every %dx%d spectra matrix' % (N, M))


def ob_nn(N, M, K, eps):
    def fn(ctx):
        from pydl.pydlspec2d.spec1d import HMF
        a, g0, w = _mats(N, M, K)
        s = [[ctx.real('s%d_%d' % (i, j)) for j in range(M)] for i in range(N)]
        for row in s:
            for v in row:
                ctx.add(zt(v) >= 0)
        d = {'fn': 'nn', 'N': N, 'M': M, 'K': K, 'eps': str(eps)}
        ctx.detail = d
        h = HMF(symnp.rarray(s), symnp.rarray(w), K=K, nonnegative=True, epsilon=None if eps is None else R(eps))
        h.a = symnp.rarray(a)
        h.g = symnp.rarray(g0)
        an = h.astepnn()
        gn = h.gstepnn()
        for i in range(N):
            for k in range(K):
                ctx.require(zt(R.lift(an[i, k])) >= 0, 'astepnn keeps the coefficients non-negative for non-negative data', dict(d, i=i, k=k))
        for k in range(K):
            for j in range(M):
                ctx.require(zt(R.lift(gn[k, j])) >= 0, 'gstepnn keeps the components non-negative for non-negative data', dict(d, k=k, j=j))
        # fixed point: if the data are exactly a.g the multiplicative update leaves a unchanged
    return Obligation('HMF non-negative steps N=%d M=%d K=%d eps=%s' % (N, M, K, eps), fn, bounds='every non-negative %dx%d spectra matrix' % (N, M))


def ob_normbase(K, M):
    def fn(ctx):
        from pydl.pydlspec2d.spec1d import HMF
        g = [[ctx.real('g%d_%d' % (k, j)) for j in range(M)] for k in range(K)]
        for row in g:
            ctx.add(z3.Or([zt(v) != 0 for v in row]))
        d = {'fn': 'normbase', 'K': K, 'M': M}
        ctx.detail = d
        h = HMF(symnp.zeros((2, M)), symnp.ones((2, M)), K=K)
        h.g = symnp.rarray(g)
        r = h.normbase()
        ctx.require(r.shape == (K,), 'normbase: one value per component', d)
        for k in range(K):
            rk = zt(R.lift(r[k]))
            ms = z3.Sum([zt(v) * zt(v) for v in g[k]]) / M
            ctx.require(z3.And(rk > 0, rk * rk == ms), 'normbase: dividing by it gives unit rms components', dict(d, k=k))
    return Obligation('HMF.normbase K=%d M=%d' % (K, M), fn, bounds='every non-zero component matrix', solver_timeout_ms=120000)


ATTRS = ('acoeff', 'chi2', 'yfit', 'dof', 'covar', 'var')
READ_ORDERS = [ATTRS, ATTRS[::-1], ('var', 'yfit', 'covar', 'chi2', 'dof', 'acoeff'), ('yfit', 'var', 'chi2', 'acoeff', 'covar', 'dof')]


def ob_chi2(extra_zero_weight, order_index=0):
    """computechi2 on a 2-parameter system given through its decomposition: M = diag(sigma) V^T with V a
    rotation (rational parametrisation by t) and sigma0 >= sigma1 > 0 symbolic, weights symbolic positive,
    optionally a third datum with zero weight.  Every full-rank 2x2 weighted system has this form."""
    def fn(ctx):
        from pydl.pydlutils.math import computechi2
        t = ctx.real('t')
        s0, s1 = ctx.real('sigma0'), ctx.real('sigma1')
        q0, q1 = ctx.real('sqivar0'), ctx.real('sqivar1')
        b = ctx.reals('b', 3 if extra_zero_weight else 2)
        ctx.add(z3.And(zt(s0) >= zt(s1), zt(s1) > 0, zt(q0) > 0, zt(q1) > 0, zt(t) >= -2, zt(t) <= 2))
        ctx.hints = [z3.And(zt(t) == z3.RealVal('1/2'), zt(q0) == 1, zt(q1) == 2, zt(s0) == zt(s1), zt(s0) == z3.RealVal('1/536870912'))]
        d = {'fn': 'chi2', 'extra': extra_zero_weight}
        ctx.detail = d
        den = R(1) + t * t
        c, s = (R(1) - t * t) / den, (R(2) * t) / den
        V = [[c, -s], [s, c]]                      # columns are the right singular vectors
        Mw = [[s0 * V[0][0], s0 * V[1][0]], [s1 * V[0][1], s1 * V[1][1]]]        # diag(sigma) V^T
        A = [[Mw[0][0] / q0, Mw[0][1] / q0], [Mw[1][0] / q1, Mw[1][1] / q1]]
        sq = [q0, q1]
        if extra_zero_weight:
            A.append([R(Fraction(3)), R(Fraction(-7, 2))])
            sq.append(R(Fraction(0)))
        # decomposition of mm = M^T M = V diag(sigma^2) V^T, handed to the svd stub, which verifies it
        U = symnp.rarray([[V[0][0], V[0][1]], [V[1][0], V[1][1]]])
        Vh = symnp.rarray([[V[0][0], V[1][0]], [V[0][1], V[1][1]]])
        symnp.SVD_HINTS[:] = [(U, [s0 * s0, s1 * s1], Vh)]
        try:
            fit = computechi2(symnp.rarray(b), symnp.rarray(sq), symnp.rarray(A))
            # the results are lazy properties of one object: the order in which a caller reads them is a parameter of the
            # obligation (the listed orders contain every ordered pair of attributes), and each is read a second time
            order = READ_ORDERS[order_index]
            d = dict(d, read_order=list(order))
            ctx.detail = d
            first = {}
            for name in order:
                first[name] = getattr(fit, name)
            acoeff, chi2, yfit, dof, covar, var = (first[k] for k in ATTRS)
            again = {name: getattr(fit, name) for name in ATTRS}
        finally:
            symnp.SVD_HINTS[:] = []
        n = len(b)
        M = [[A[i][j] * sq[i] for j in range(2)] for i in range(n)]
        bw = [b[i] * sq[i] for i in range(n)]
        mm = [[sum((M[i][a_] * M[i][b_] for i in range(n)), R(Fraction(0))) for b_ in range(2)] for a_ in range(2)]
        for a_ in range(2):
            lhs = sum((mm[a_][j] * R.lift(acoeff[j]) for j in range(2)), R(Fraction(0)))
            rhs = sum((M[i][a_] * bw[i] for i in range(n)), R(Fraction(0)))
            ctx.require(zt(lhs) == zt(rhs), 'computechi2: coefficients satisfy the weighted normal equations (unique solution)', dict(d, row=a_))
        for i in range(n):
            ctx.require(zt(R.lift(yfit[i])) == zt(sum((A[i][j] * R.lift(acoeff[j]) for j in range(2)), R(Fraction(0)))),
                        'computechi2: fitted values = A x', dict(d, i=i))
        res = sum(((sum((M[i][j] * R.lift(acoeff[j]) for j in range(2)), R(Fraction(0))) - bw[i]) ** 2 for i in range(n)), R(Fraction(0)))
        ctx.require(zt(R.lift(chi2)) == zt(res), 'computechi2: chi-square of the weighted residuals', d)
        ctx.require(int(dof) == 2 - 2, 'computechi2: degrees of freedom = data with positive weight - parameters', dict(d, dof=str(dof)))
        for a_ in range(2):
            for b_ in range(2):
                prod = sum((R.lift(covar[a_, j]) * mm[j][b_] for j in range(2)), R(Fraction(0)))
                ctx.require(zt(prod) == (1 if a_ == b_ else 0), 'computechi2: covariance is the inverse of A^T W A', dict(d, i=a_, j=b_))
            ctx.require(zt(R.lift(var[a_])) == zt(R.lift(covar[a_, a_])), 'computechi2: variances are the diagonal of the covariance', dict(d, i=a_))
        for name in ('acoeff', 'yfit', 'var'):
            for u, v in zip(np.asarray(first[name], dtype=object).reshape(-1), np.asarray(again[name], dtype=object).reshape(-1)):
                ctx.require(zt(R.lift(u)) == zt(R.lift(v)), 'computechi2: reading a result a second time gives the same value', dict(d, attr=name))
        for u, v in zip(np.asarray(covar, dtype=object).reshape(-1), np.asarray(again['covar'], dtype=object).reshape(-1)):
            ctx.require(zt(R.lift(u)) == zt(R.lift(v)), 'computechi2: reading a result a second time gives the same value', dict(d, attr='covar'))
        ctx.require(zt(R.lift(chi2)) == zt(R.lift(again['chi2'])), 'computechi2: reading a result a second time gives the same value', dict(d, attr='chi2'))
    return Obligation('computechi2 2 parameters extra_zero_weight=%d read_order=%d' % (extra_zero_weight, order_index), fn, solver_timeout_ms=120000,
                      bounds='every full-rank 2x2 weighted system (rotation parameter |t| <= 2, every sigma0 >= sigma1 > 0, every positive weight, every b)')


def obligations(tier, seed):
    q = tier == 'quick'
    obs = []
    shapes = [(2, 3, 1), (2, 4, 2), (3, 4, 2)] if q else [(2, 3, 1), (2, 4, 2), (3, 4, 2), (3, 5, 2), (3, 4, 3), (4, 6, 2)]
    for N, M, K in shapes:
        obs.append(ob_astep(N, M, K))
        for eps in (None, F(0), F(1, 2)):
            obs.append(ob_gstep(N, M, K, eps))
        obs.append(ob_nn(N, M, K, None))
        obs.append(ob_nn(N, M, K, F(1, 2)))
    for oi in range(len(READ_ORDERS)):
        obs.append(ob_chi2(False, oi))
        if oi < 2 or not q:
            obs.append(ob_chi2(True, oi))
    obs.append(ob_normbase(1, 3))
    obs.append(ob_normbase(2, 2))
    return obs


def _f(v):
    if isinstance(v, dict):
        return int(v['num']) / int(v['den'])
    return float(v)


def replay(rec):
    import warnings
    warnings.simplefilter('ignore')
    from pydl.pydlspec2d.spec1d import HMF
    d = rec['detail'] or {}
    inp = rec['inputs'] or {}
    fn = d.get('fn')
    if fn == 'normbase':
        K, M = d['K'], d['M']
        g = np.array([[_f(inp.get('g%d_%d' % (k, j), 1)) for j in range(M)] for k in range(K)])
        h = HMF(np.zeros((2, M)), np.ones((2, M)), K=K)
        h.g = g
        r = h.normbase()
        return bool(np.abs(((g / r[:, None]) ** 2).mean(1) - 1).max() > 1e-9)
    if fn == 'chi2':
        from pydl.pydlutils.math import computechi2
        t, s0, s1 = _f(inp.get('t', 0)), _f(inp.get('sigma0', 1)), _f(inp.get('sigma1', 1))
        q = [_f(inp.get('sqivar0', 1)), _f(inp.get('sqivar1', 1))]
        n = 3 if d['extra'] else 2
        b = np.array([_f(inp.get('b%d' % i, 0)) for i in range(n)])
        c, s = (1 - t * t) / (1 + t * t), 2 * t / (1 + t * t)
        Mw = np.array([[s0 * c, s0 * s], [-s1 * s, s1 * c]])
        A = Mw / np.array(q)[:, None]
        sq = np.array(q)
        if d['extra']:
            A = np.vstack([A, [3.0, -3.5]])
            sq = np.append(sq, 0.0)
        fit = computechi2(b, sq, A)
        order = d.get('read_order') or READ_ORDERS[int(inp.get('read_order', 0))]
        first = {}
        for name in order:                    # same order of use as the symbolic run
            v = getattr(fit, name)
            first[name] = np.array(v, dtype=float).copy() if name != 'dof' else int(v)
        chi2_first = float(first['chi2'])
        for name in ATTRS:
            if name != 'dof' and np.abs(np.asarray(getattr(fit, name), dtype=float) - first[name]).max() > 1e-9 * max(1e-300, np.abs(first[name]).max()):
                return True
        fit = type('First', (), first)()
        M = A * sq[:, None]
        mm = M.T @ M
        scale = np.abs(mm).max()
        # independent oracle: closed-form inverse of the 2x2 normal matrix
        det = mm[0, 0] * mm[1, 1] - mm[0, 1] * mm[1, 0]
        inv = np.array([[mm[1, 1], -mm[0, 1]], [-mm[1, 0], mm[0, 0]]]) / det
        if np.abs(fit.covar - inv).max() > 1e-6 * np.abs(inv).max():
            return True
        if np.abs(np.diag(fit.covar) - fit.var).max() > 0:
            return True
        xref = inv @ (M.T @ (b * sq))
        if np.abs(fit.acoeff - xref).max() > 1e-6 * max(1e-300, np.abs(xref).max()):
            return True
        if np.abs(fit.yfit - A @ xref).max() > 1e-6 * max(1e-300, np.abs(A @ xref).max()):
            return True
        res = float((((M @ xref) - b * sq) ** 2).sum())
        if abs(chi2_first - res) > 1e-6 * max(1e-300, abs(res), float(((b * sq) ** 2).sum()) * 1e-6):
            return True
        return int(fit.dof) != int((sq > 0).sum()) - 2
    N, M, K = d['N'], d['M'], d['K']
    a, g, w = _mats(N, M, K)
    a, g, w = (np.array([[float(v) for v in row] for row in m]) for m in (a, g, w))
    s = np.array([[_f(inp.get('s%d_%d' % (i, j), 1)) for j in range(M)] for i in range(N)])
    eps = None if d.get('eps', 'None') == 'None' else float(Fraction(d['eps']))
    scale = max(1.0, np.abs(s).max())
    if fn == 'astep':
        h = HMF(s, w, K=K)
        h.g = g
        an = h.astep()
        grad = ((s - an @ g) * w) @ g.T
        return bool(np.abs(grad).max() > 1e-8 * scale)
    if fn == 'gstep':
        h = HMF(s, w, K=K, epsilon=eps)
        h.a, h.g = a, g.copy()
        gn = h.gstep()
        grad = a.T @ ((s - a @ gn) * w)
        if eps:
            pen = np.zeros_like(gn)
            pen[:, 1:] += eps * (gn[:, 1:] - g[:, :-1])
            pen[:, :-1] += eps * (gn[:, :-1] - g[:, 1:])
            grad = grad - pen
        return bool(np.abs(grad).max() > 1e-8 * scale)
    if fn == 'nn':
        h = HMF(s, w, K=K, nonnegative=True, epsilon=eps)
        h.a, h.g = a, g.copy()
        return bool((h.astepnn() < 0).any() or (h.gstepnn() < 0).any())
    return False
