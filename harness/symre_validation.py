"""differential validation of pathsym.symre against the standard re module on every pattern
that occurs in yanny.py / sdss.py / mangle.py, with random and adversarial concrete strings."""
import random
import re

from pathsym import symre
from pathsym.sstr import SStr

PATTERNS = [r'^"([^"]*)"\s*(.*)', r'^\{\s*([^}]*)\s*\}\s*(.*)', r'\s+', r'(\S+)\s+flag([\[<].*[\]>]|);',
            r'char[\[<]\d*[\]>][\[<]\d*[\]>]', r'typedef\s+enum\s*\{([^}]+)\}\s*(\w+)\s*;', r',\s*', r'\\\s*\n',
            r'typedef\s+struct\s*\{[^}]+\}\s*\w+\s*;', r'typedef\s+enum\s*\{[^}]+\}\s*\w+\s*;',
            r'typedef\s+struct\s*\{([^}]+)\}\s*(\w*)\s*;', r'\S+\s+\S+;', r'[\[<].*[\]>]$', r'^\s*#', r'^\s*$',
            r'\{\s*\{\s*\}\s*\}', r'\{\s*\{\s*\}\s*\}(?=(?:[^"]*"[^"]*")*[^"]*$)', r'v(\d+)_(\d+)_(\d+)', r'spPlate-[0-9]{4}-([0-9]{5}).fits']
ALPHABET = ' \t\n"{}[]<>#;\\,_abtypedefstruchn01v5.-'
SEEDS = ['typedef struct {\n int a;\n char b[5];\n} FOO;\n', 'typedef enum {\n A,\n B\n} E;', 'FOO 1 "a b" {x y}', '{{}}', '{ { } }',
         'a \\\n b', 'key value # comment', '"quoted" rest', '{a b} c', 'char flag[3];', 'char[2][10]', 'v5_7_0', 'spPlate-0266-51602.fits',
         'int flag<3>;', '   ', '', '#x', ' #x', 'x{{}}', '\t{{}}', '"x{{}}" {{}} 5', 'T "a" {{}} "b{{}}"']


def _norm(x):
    if isinstance(x, SStr):
        return ''.join(x.items)
    if isinstance(x, (list, tuple)):
        return type(x)(_norm(e) for e in x)
    return x


def _mtuple(m):
    if m is None:
        return None
    return (_norm(m.group(0)), tuple(_norm(g) for g in m.groups()), m.span())


def run(seed=0, n=120):
    rng = random.Random(seed)
    count = 0
    for pat in PATTERNS:
        cp = symre.compile(pat)
        rp = re.compile(pat)
        subjects = list(SEEDS)
        for _ in range(n):
            k = rng.randint(0, 14)
            s = ''.join(rng.choice(ALPHABET) for _ in range(k))
            if rng.random() < 0.4:
                s = rng.choice(SEEDS)[:rng.randint(0, 30)] + s
            subjects.append(s)
        for s in subjects:
            ss = SStr(tuple(s))       # concrete characters, but forced through the symbolic matcher
            assert _mtuple(cp.search(ss)) == _mtuple(rp.search(s)), ('search', pat, s)
            assert _mtuple(cp.match(ss)) == _mtuple(rp.match(s)), ('match', pat, s)
            assert _norm(cp.findall(ss)) == rp.findall(s), ('findall', pat, s)
            assert _norm(cp.sub('@', ss)) == rp.sub('@', s), ('sub', pat, s)
            assert _norm(cp.split(ss)) == rp.split(s), ('split', pat, s)
            assert _norm(cp.split(ss, 1)) == rp.split(s, 1), ('split1', pat, s)
            count += 6
    # the str methods the symbolic string class re-implements, against str itself
    for _ in range(n * 10):
        t = ''.join(rng.choice(' \t\nab#"{') for _ in range(rng.randint(0, 8)))
        ss = SStr(tuple(t))
        for k in (-1, 0, 1, 2):
            assert _norm(ss.split(None, k)) == t.split(None, k), ('str.split', t, k)
            assert _norm(ss.split(' ', k)) == t.split(' ', k), ('str.split sep', t, k)
        assert _norm(ss.strip()) == t.strip() and _norm(ss.rstrip()) == t.rstrip(), ('strip', t)
        assert ss.find('#') == t.find('#') and ss.rfind('#') == t.rfind('#'), ('find', t)
        assert _norm(ss.replace('a', 'xy')) == t.replace('a', 'xy'), ('replace', t)
        count += 12
    return count


if __name__ == '__main__':
    print(run())
