"""C08 - B-spline evaluation equals the Cox-de Boor spline of its knots and coefficients."""
from fractions import Fraction
import numpy as np
import z3

from pathsym import core, symnp
from pathsym.core import R, B, Z, zt, ite
from .common import Obligation

PID = 'C08'

META = {
    'functions_encoded': ['pydl.pydlutils.bspline.bspline.__init__', 'bspline.intrv', 'bspline.bsplvn', 'bspline.action',
                          'bspline.value', 'pydl.uniq.uniq'],
    'stubs': [],
    'assumptions': ['floats are exact reals: float32 storage of breakpoints and "to single-precision rounding" become exact coverage',
                    'explicit / placed breakpoints and, for everyn, the data abscissae are given in increasing order',
                    'order 1 (piecewise constant): at an interior breakpoint either one-sided value is accepted'],
    'outside_bounds': 'IEEE rounding; orders 5-6 only with concrete knot families; more than 3 evaluation points; npoly > 1 (x2)',
}

KNOT_FAMILIES = {
    'uniform': [Fraction(k) for k in range(0, 8)],
    'clustered': [Fraction(0), Fraction(1, 10), Fraction(2, 10), Fraction(1), Fraction(3), Fraction(31, 10), Fraction(6), Fraction(7)],
    'gap': [Fraction(0), Fraction(1), Fraction(2), Fraction(9), Fraction(10), Fraction(11), Fraction(12), Fraction(20)],
}


def _make(ctx, nord, nbk, knots):
    """build a bspline object through the real constructor. knots: 'sym' or a family name."""
    from pydl.pydlutils.bspline import bspline
    if knots == 'sym':
        bk = ctx.reals('b', nbk)
        for a, b in zip(bk, bk[1:]):
            ctx.add(zt(a) < zt(b))
    else:
        bk = [R(v) for v in KNOT_FAMILIES[knots][:nbk]]
    # data abscissae only fix the covered range: put them at the end breakpoints
    xdata = symnp.rarray([bk[0], bk[-1]])
    sset = bspline(xdata, nord=nord, bkpt=symnp.rarray(list(bk)))
    return sset, bk


def deboor(knots, coeff, nord, j, x):
    """de Boor's algorithm on interval j (t_j <= x <= t_{j+1}); independent of bsplvn."""
    k = nord
    d = [coeff[i] for i in range(j - k + 1, j + 1)]
    for r in range(1, k):
        new = list(d)
        for idx in range(k - 1, r - 1, -1):
            i = j - k + 1 + idx
            alpha = (x - knots[i]) / (knots[i + k - r] - knots[i])
            new[idx] = (1 - alpha) * d[idx - 1] + alpha * d[idx]
        d = new
    return d[k - 1]


def _interval_of(x, full, nord):
    """the harness's own location of x among the breakpoints: j with t_j <= x <= t_{j+1},
    nord-1 <= j <= n-1 (decided by comparisons; most are implied by the path condition)."""
    n = len(full) - nord
    j = nord - 1
    while j < n - 1 and bool(x > full[j + 1]):
        j += 1
    return j


def ob_basis(nord, nbk, knots):
    def fn(ctx):
        sset, bk = _make(ctx, nord, nbk, knots)
        full = sset.breakpoints.tolist()
        n = len(full) - nord
        x = ctx.real('x')
        ctx.add(z3.And(zt(x) >= zt(full[nord - 1]), zt(x) <= zt(full[n])))
        d = {'fn': 'basis', 'nord': nord, 'nbk': nbk, 'knots': knots}
        ctx.detail = d
        xa = symnp.rarray([x])
        vals = sset.bsplvn(xa, sset.intrv(xa))
        row = vals[0].tolist()
        ctx.require(len(row) == nord, 'bsplvn: nord values per point', d)
        if not (knots == 'sym' and nord >= 4):
            # order >= 4 with symbolic knots: the sign condition is a 4-variable cubic rational
            # inequality that z3/nlsat does not settle in 240 s (bound reduced, see DESIGN.md C08);
            # the partition of unity (an identity) is still shown
            for v in row:
                ctx.require(zt(R.lift(v)) >= 0, 'basis functions are non-negative', d)
        ctx.require(z3.Sum([zt(R.lift(v)) for v in row]) == 1, 'basis functions sum to one', d)
    return Obligation('basis nord=%d nbk=%d knots=%s' % (nord, nbk, knots), fn,
                      bounds='order %d, %d breakpoints (%s), every x in the breakpoint range' % (nord, nbk, knots),
                      solver_timeout_ms=240000)


def ob_value(nord, nbk, knots, npts):
    def fn(ctx):
        sset, bk = _make(ctx, nord, nbk, knots)
        full = sset.breakpoints.tolist()
        n = len(full) - nord
        nc = n
        c = ctx.reals('c', nc)
        sset.coeff = symnp.rarray(c)
        xs = ctx.reals('x', npts)
        lo, hi = full[nord - 1], full[n]
        span = hi - lo
        for x in xs:
            ctx.add(z3.And(zt(x) >= zt(lo - span), zt(x) <= zt(hi + span)))
        d = {'fn': 'value', 'nord': nord, 'nbk': nbk, 'knots': knots, 'npts': npts}
        ctx.detail = d
        y, mask = sset.value(symnp.rarray(xs))
        ctx.require(y.shape == (npts,) and mask.shape == (npts,), 'value: shapes', d)
        for p, x in enumerate(xs):
            inside = bool((x >= lo) & (x <= hi))
            ctx.require(bool(mask[p]) == inside, 'mask is False exactly outside the breakpoint range', dict(d, p=p))
            if not inside:
                continue
            j = _interval_of(x, full, nord)
            ref = deboor(full, c, nord, j, x)
            if nord == 1:
                alts = [zt(R.lift(y[p])) == zt(ref)]
                if j + 1 <= n - 1:
                    alts.append(z3.And(zt(x) == zt(full[j + 1]), zt(R.lift(y[p])) == zt(c[j + 1])))
                if j - 1 >= 0:
                    alts.append(z3.And(zt(x) == zt(full[j]), zt(R.lift(y[p])) == zt(c[j - 1])))
                ctx.require(z3.Or(alts), 'value equals the spline of the knots and coefficients (caller order)', dict(d, p=p))
            else:
                ctx.require(zt(R.lift(y[p])) == zt(ref), 'value equals the spline of the knots and coefficients (caller order)', dict(d, p=p))
    return Obligation('value nord=%d nbk=%d knots=%s npts=%d' % (nord, nbk, knots, npts), fn,
                      bounds='order %d, %d breakpoints (%s), %d evaluation points in any order, every coefficient vector' % (nord, nbk, knots, npts),
                      solver_timeout_ms=240000, max_seconds=1700)


def _check_knots(ctx, sset, nord, xs, d, nshort=None):
    full = sset.breakpoints.tolist()
    n = len(full) - nord
    sfx = ' [everyn > len(x)/2: single breakpoint]' if d.get('single_breakpoint') else ''
    if sfx:
        ctx.require(z3.And([zt(R.lift(a)) <= zt(R.lift(b)) for a, b in zip(full, full[1:])] + [z3.BoolVal(True)]),
                    'constructor: knot vector non-decreasing', d)
        cover = z3.And([z3.And(zt(R.lift(full[nord - 1])) <= zt(x), zt(x) <= zt(R.lift(full[max(n, 0)]))) for x in xs]) if n >= 0 else z3.BoolVal(False)
        ctx.require(z3.And(z3.BoolVal(n >= 1), cover), 'constructor: breakpoint range covers the data' + sfx, d)
        return
    ctx.require(n >= 1 and len(full) >= 2 * nord - 1 + 1, 'constructor: order-1 extra knots on each side', d)
    if nshort is not None:
        ctx.require(len(full) == nshort + 2 * (nord - 1), 'constructor: exactly order-1 extra knots on each side', d)
    for a, b in zip(full, full[1:]):
        ctx.require(zt(R.lift(a)) <= zt(R.lift(b)), 'constructor: knot vector non-decreasing', d)
    for x in xs:
        ctx.require(z3.And(zt(R.lift(full[nord - 1])) <= zt(x), zt(x) <= zt(R.lift(full[n]))),
                    'constructor: breakpoint range covers the data', d)
    ctx.require(sset.coeff.shape == (n,) and sset.mask.shape == (len(full),) and bool(sset.mask.all()),
                'constructor: coefficient and mask sizes', d)


def ob_construct(option, nord, nx, param):
    def fn(ctx):
        from pydl.pydlutils.bspline import bspline
        xs = ctx.reals('x', nx)
        d = {'fn': 'construct', 'option': option, 'nord': nord, 'nx': nx, 'param': str(param)}
        ctx.detail = d
        ctx.add(z3.Or([zt(a) != zt(xs[0]) for a in xs[1:]]) if nx > 1 else z3.BoolVal(True))
        x = symnp.rarray(xs)
        nshort = None
        if option == 'bkpt':
            bk = ctx.reals('b', param)
            for a, b in zip(bk, bk[1:]):
                ctx.add(zt(a) < zt(b))
            sset = bspline(x, nord=nord, bkpt=symnp.rarray(bk))
            nshort = param
        elif option == 'placed':
            pl = ctx.reals('p', param)
            for a, b in zip(pl, pl[1:]):
                ctx.add(zt(a) < zt(b))
            sset = bspline(x, nord=nord, placed=symnp.rarray(pl))
        elif option == 'bkspace':
            sp = ctx.real('bkspace')
            mn, mx = symnp._m_min(x), symnp._m_max(x)
            ctx.add(zt(sp) > 0)
            ctx.add(zt(mx - mn) <= zt(sp) * param)       # at most `param`+1 breakpoints
            sset = bspline(x, nord=nord, bkspace=sp)
        elif option == 'nbkpts':
            sset = bspline(x, nord=nord, nbkpts=param)
            nshort = max(param, 2)
        elif option == 'everyn':
            sset = bspline(x, nord=nord, everyn=param)
            if nx // param < 2:
                d = dict(d, single_breakpoint=True)
        _check_knots(ctx, sset, nord, xs, d, nshort)
    return Obligation('construct %s nord=%d nx=%d param=%s' % (option, nord, nx, param), fn,
                      bounds='%d data abscissae (any order), option %s=%s' % (nx, option, param), solver_timeout_ms=120000)


def obligations(tier, seed):
    obs = []
    q = tier == 'quick'
    # H8.1 basis
    for nord in (1, 2, 3) + (() if q else (4,)):
        obs.append(ob_basis(nord, 3, 'sym'))
    if not q:
        obs.append(ob_basis(3, 4, 'sym'))
    for nord in (4, 5, 6):
        for fam in (('uniform',) if q else tuple(KNOT_FAMILIES)):
            obs.append(ob_basis(nord, 4 if q else 6, fam))
    # H8.2 value
    for nord in (1, 2, 3):
        obs.append(ob_value(nord, 3, 'sym', 1))
    obs.append(ob_value(2, 3, 'sym', 2))
    obs.append(ob_value(2, 3, 'sym', 3))           # three points: orders whose sorting permutation is not an involution
    obs.append(ob_value(4, 5, 'gap', 3))
    for nord in (3, 4):
        obs.append(ob_value(nord, 4, 'clustered', 2))
    obs.append(ob_value(5, 4, 'uniform', 1))
    obs.append(ob_value(6, 4, 'gap', 1))
    if not q:
        obs.append(ob_value(4, 3, 'sym', 1))
        obs.append(ob_value(3, 3, 'sym', 2))
        obs.append(ob_value(2, 4, 'sym', 3))
        for fam in KNOT_FAMILIES:
            obs.append(ob_value(4, 6, fam, 3))
            obs.append(ob_value(5, 5, fam, 2))
            obs.append(ob_value(6, 5, fam, 2))
    # H8.3 constructor options
    for nord in (1, 2, 4) if q else (1, 2, 3, 4, 6):
        obs.append(ob_construct('bkpt', nord, 2, 2))
        obs.append(ob_construct('bkpt', nord, 3, 3))
        obs.append(ob_construct('placed', nord, 2, 3))
        obs.append(ob_construct('bkspace', nord, 3, 3))
        for nb in (1, 2, 4):
            obs.append(ob_construct('nbkpts', nord, 3, nb))
        for ev in (1, 2, 3):
            obs.append(ob_construct('everyn', nord, 4, ev))
    if not q:
        obs.append(ob_construct('placed', 4, 3, 4))
        obs.append(ob_construct('bkspace', 4, 4, 4))
        obs.append(ob_construct('everyn', 4, 5, 2))
    return obs


# ------------------------------------------------------------------ replay
def _f(v):
    if isinstance(v, dict):
        return int(v['num']) / int(v['den'])
    return float(v)


def _bspl_ref(knots, coeff, nord, x):
    """textbook Cox-de Boor value (floats), right end closed."""
    n = len(knots) - nord

    def Bf(i, k):
        if k == 1:
            if knots[i] <= x < knots[i + 1] or (x == knots[n] and i == n - 1):
                return 1.0
            return 0.0
        a = 0.0
        if knots[i + k - 1] != knots[i]:
            a = (x - knots[i]) / (knots[i + k - 1] - knots[i]) * Bf(i, k - 1)
        b = 0.0
        if knots[i + k] != knots[i + 1]:
            b = (knots[i + k] - x) / (knots[i + k] - knots[i + 1]) * Bf(i + 1, k - 1)
        return a + b
    return sum(coeff[i] * Bf(i, nord) for i in range(n))


def replay(rec):
    from pydl.pydlutils.bspline import bspline
    d = rec['detail'] or {}
    inp = rec['inputs'] or {}
    fn = d.get('fn')
    tol = 1e-6
    if fn in ('basis', 'value'):
        nord, nbk, knots = d['nord'], d['nbk'], d['knots']
        bk = [_f(inp['b%d' % i]) for i in range(nbk)] if knots == 'sym' else [float(v) for v in KNOT_FAMILIES[knots][:nbk]]
        sset = bspline(np.array([bk[0], bk[-1]]), nord=nord, bkpt=np.array(bk))
        full = sset.breakpoints.astype('d')
        sset.breakpoints = full     # undo the float32 storage so that the replay tests the algebra
        n = len(full) - nord
        if fn == 'basis':
            x = np.array([_f(inp['x'])])
            row = sset.bsplvn(x, sset.intrv(x))[0]
            return bool((row < -tol).any() or abs(row.sum() - 1.0) > tol)
        c = np.array([_f(inp['c%d' % i]) for i in range(n)])
        sset.coeff = c
        xs = np.array([_f(inp['x%d' % i]) for i in range(d['npts'])])
        y, mask = sset.value(xs)
        for p, x in enumerate(xs):
            inside = full[nord - 1] <= x <= full[n]
            if bool(mask[p]) != bool(inside):
                return True
            if inside:
                ref = _bspl_ref(full.tolist(), c.tolist(), nord, x)
                scale = max(1.0, abs(ref), float(np.abs(c).max()))
                if abs(y[p] - ref) > tol * scale:
                    if nord == 1 and any(abs(x - t) < 1e-12 for t in full):
                        continue
                    return True
        return False
    if fn == 'construct':
        nord, nx, option = d['nord'], d['nx'], d['option']
        xs = np.array([_f(inp['x%d' % i]) for i in range(nx)])
        param = d['param']
        kw = {}
        if option == 'bkpt':
            kw['bkpt'] = np.array([_f(inp['b%d' % i]) for i in range(int(param))])
        elif option == 'placed':
            kw['placed'] = np.array([_f(inp['p%d' % i]) for i in range(int(param))])
        elif option == 'bkspace':
            kw['bkspace'] = _f(inp['bkspace'])
        elif option == 'nbkpts':
            kw['nbkpts'] = int(param)
        else:
            kw['everyn'] = int(param)
        sset = bspline(xs, nord=nord, **kw)
        full = np.asarray(sset.breakpoints, dtype='d')
        n = len(full) - nord
        eps = 1e-6 * max(1.0, float(np.abs(xs).max()))
        if n < 1 or (np.diff(full) < -eps).any():
            return True
        if full[nord - 1] > xs.min() + eps or full[n] < xs.max() - eps:
            return True
        return False
    return False
