"""entry point:  python -m harness.run <PID> [--tier quick|thorough] [--replay path] [--only regex]"""
import argparse
import importlib
import os
import re
import sys
import time
import warnings

from . import common


def main():
    ap = argparse.ArgumentParser()
    ap.add_argument('pid')
    ap.add_argument('--tier', default=os.environ.get('VERIF_TIER', 'quick'))
    ap.add_argument('--replay')
    ap.add_argument('--only')
    ap.add_argument('--nproc', type=int, default=None)
    ap.add_argument('--list', action='store_true')
    a = ap.parse_args()
    seed = int(os.environ.get('VERIF_SEED', '0') or 0)
    t0 = time.time()
    if a.replay:
        rc, out = common.replay_in_fresh_process(a.pid, a.replay)
        print(out.strip())
        if rc == 10:
            print('VIOLATION property=%s replay=%s' % (a.pid, a.replay))
            sys.exit(1)
        sys.exit(0)
    warnings.simplefilter('ignore')
    common.setup_instrumented()
    mod = importlib.import_module('harness.' + a.pid)
    obs = mod.obligations(a.tier, seed)
    if a.only:
        obs = [o for o in obs if re.search(a.only, o.name)]
    if a.list:
        for o in obs:
            print(o.name)
        return
    extra = dict(getattr(mod, 'META', {}))
    extra['engine'] = 'pathsym (per-path symbolic execution of the instrumented pydl source, z3 %s)' % __import__('z3').get_version_string()
    tvp = common.start_translation_validation(a.pid, a.tier) if not a.only else None
    validated = mod.validate(seed, a.tier) if hasattr(mod, 'validate') else 0
    results = common.run_obligations(obs, nproc=a.nproc)
    tv = common.finish_tv(tvp)
    extra['traces_validated'] = validated + max(tv.get('tests_passed', 0), 0)
    from pathsym import loader
    extra['source_sha256'] = loader.source_digest()
    extra['translation_validation'] = {'instrumented_modules': sorted(set(loader.STATS['modules'])), 'repo_tests_through_instrumented_modules': tv,
                                       'stub_and_interpreter_comparisons_against_the_real_library': validated}
    if hasattr(mod, 'post'):
        mod.post(a.tier, results, extra)
    rc = common.finish(a.pid, a.tier, seed, results, t0, extra)
    if tv.get('tests_failed', 0) > 0 and rc == 0:
        print('HARNESS-ERROR property=%s the instrumented modules fail repository tests that the plain modules pass: %s' % (a.pid, tv.get('failed')))
        rc = common.EXIT_HARNESS
    sys.exit(rc)


if __name__ == '__main__':
    main()
