"""C06 - objID / specObjID packing is a bijection with the documented bit layout.

All numeric fields are 64-bit bit-vectors (array calls) or Python ints constrained to the int64
range (scalar calls); the solver covers every field tuple at once."""
import numpy as np
import z3

from pathsym import core, symnp
from pathsym.core import R, B, BV, Z, zt
from .common import Obligation

PID = 'C06'

META = {
    'functions_encoded': ['pydl.pydlutils.sdss.sdss_objid', 'pydl.pydlutils.sdss.sdss_specobjid',
                          'pydl.pydlutils.sdss.unwrap_specobjid', 'pydl.photoop.photoobj.unwrap_objid'],
    'stubs': ['numpy.recarray -> record stand-in with per-field numpy casting rules (int64 -> int32 truncation)'],
    'assumptions': ['numpy int64/uint64 arithmetic = 64-bit two\'s complement bit-vectors, numpy promotion rules via numpy.result_type',
                    'scalar (Python int) arguments are restricted to the int64 range'],
    'outside_bounds': 'arrays longer than 3 elements; Python ints beyond 64 bits',
}

OBJ_FIELDS = [('skyversion', 59, 4), ('rerun', 48, 11), ('run', 32, 16), ('camcol', 29, 3),
              ('firstfield', 28, 1), ('field', 16, 12), ('objnum', 0, 16)]
OBJ_RANGES = {'skyversion': (0, 15), 'rerun': (0, 2 ** 11 - 1), 'run': (0, 2 ** 16 - 1), 'camcol': (1, 6),
              'firstfield': (0, 1), 'field': (0, 2 ** 12 - 1), 'objnum': (0, 2 ** 16 - 1)}
SPEC_FIELDS = [('plate', 50, 14), ('fiber', 38, 12), ('mjd', 24, 14), ('run2d', 10, 14), ('line', 0, 10)]


def _sint(t):
    return z3.BV2Int(t, is_signed=True)


def _in(t, lo, hi):
    """signed 64-bit range predicate"""
    return z3.And(t >= lo, t <= hi)


def ob_objid_array(n, optional):
    """array call; optional: also pass rerun/skyversion/firstfield arrays"""
    def fn(ctx):
        from pydl.pydlutils.sdss import sdss_objid
        from pydl.photoop.photoobj import unwrap_objid
        names = ['run', 'camcol', 'field', 'objnum'] + (['rerun', 'skyversion', 'firstfield'] if optional else [])
        f = {k: [ctx.bv('%s%d' % (k, i), 'i8') for i in range(n)] for k in names}
        arr = {k: symnp._build_object(v) for k, v in f.items()}
        d = {'fn': 'objid_array', 'n': n, 'optional': optional}
        try:
            out = sdss_objid(arr['run'], arr['camcol'], arr['field'], arr['objnum'],
                             **({k: arr[k] for k in ('rerun', 'skyversion', 'firstfield')} if optional else {}))
            raised = None
        except ValueError:
            raised = 'ValueError'
        except Exception as e:
            ctx.fail('objid: unexpected %s' % type(e).__name__, d)
            return
        vals = {k: [e.term for e in f[k]] for k in names}
        if not optional:
            vals['rerun'] = [z3.BitVecVal(301, 64)] * n
            vals['skyversion'] = [z3.BitVecVal(2, 64)] * n
            vals['firstfield'] = [z3.BitVecVal(0, 64)] * n
        inrange = z3.And([_in(vals[k][i], *OBJ_RANGES[k]) for k in OBJ_RANGES for i in range(n)])
        if raised:
            ctx.require(z3.Not(inrange), 'objid: ValueError only for out-of-range fields', d)
            return
        ctx.require(inrange, 'objid: out-of-range field must be rejected', d)
        ctx.require(out.shape == (n,), 'objid: shape', d)
        for i in range(n):
            layout = z3.BitVecVal(0, 64)
            for name, off, width in OBJ_FIELDS:
                layout = layout | (vals[name][i] << off)
            o = out[i]
            ctx.require(isinstance(o, BV) and o.dtype == np.dtype('i8'), 'objid: int64 result', d)
            ctx.require(o.term == layout, 'objid: documented layout', dict(d, i=i))
        # round trip
        un = unwrap_objid(out)
        back = {'skyversion': un.skyversion, 'rerun': un.rerun, 'run': un.run, 'camcol': un.camcol,
                'firstfield': un.firstfield, 'field': un.frame, 'objnum': un.id}
        for name in back:
            for i in range(n):
                b = back[name][i]
                ctx.require(z3.SignExt(32, b.term) == vals[name][i], 'objid: unwrap(pack) returns the field', dict(d, field=name, i=i))
    return Obligation('objid array n=%d optional=%d' % (n, optional), fn, bounds='n=%d, every 64-bit field value' % n)


def ob_objid_scalar():
    def fn(ctx):
        from pydl.pydlutils.sdss import sdss_objid
        names = ['run', 'camcol', 'field', 'objnum', 'rerun', 'skyversion', 'firstfield']
        f = {k: ctx.int64(k) for k in names}
        d = {'fn': 'objid_scalar'}
        try:
            out = sdss_objid(f['run'], f['camcol'], f['field'], f['objnum'], rerun=f['rerun'],
                             skyversion=f['skyversion'], firstfield=f['firstfield'])
            raised = None
        except ValueError:
            raised = 'ValueError'
        except Exception as e:
            ctx.fail('objid scalar: unexpected %s' % type(e).__name__, d)
            return
        inrange = z3.And([_in(f[k].v, *OBJ_RANGES[k]) for k in names])
        if raised:
            ctx.require(z3.Not(inrange), 'objid scalar: ValueError only for out-of-range fields', d)
            return
        ctx.require(inrange, 'objid scalar: out-of-range field must be rejected', d)
        layout = z3.BitVecVal(0, 64)
        for name, off, width in OBJ_FIELDS:
            layout = layout | (z3.Extract(63, 0, f[name].v) << off)
        o = out[0]
        ctx.require(o.term == layout, 'objid scalar: documented layout (== array call)', d)
    return Obligation('objid scalar', fn, bounds='every int64 value per field')


def _spec_expected(vals, i):
    layout = z3.BitVecVal(0, 64)
    for name, off, width in SPEC_FIELDS:
        v = vals[name][i]
        if name == 'mjd':
            v = v - 50000
        layout = layout | (v << off)
    return layout


def ob_specobjid_array(n, low):
    """low: None | 'line' | 'index'"""
    def fn(ctx):
        from pydl.pydlutils.sdss import sdss_specobjid, unwrap_specobjid
        names = ['plate', 'fiber', 'mjd', 'run2d'] + ([low] if low else [])
        f = {k: [ctx.bv('%s%d' % (k, i), 'i8') for i in range(n)] for k in names}
        arr = {k: symnp._build_object(v) for k, v in f.items()}
        d = {'fn': 'specobjid_array', 'n': n, 'low': low}
        kw = {low: arr[low]} if low else {}
        try:
            out = sdss_specobjid(arr['plate'], arr['fiber'], arr['mjd'], arr['run2d'], **kw)
            raised = None
        except ValueError:
            raised = 'ValueError'
        except Exception as e:
            ctx.fail('specobjid: unexpected %s' % type(e).__name__, d)
            return
        vals = {k: [e.term for e in f[k]] for k in names}
        vals['line'] = vals[low] if low else [z3.BitVecVal(0, 64)] * n
        rng = {'plate': (0, 2 ** 14 - 1), 'fiber': (0, 2 ** 12 - 1), 'mjd': (50000, 50000 + 2 ** 14 - 1),
               'run2d': (0, 2 ** 14 - 1), 'line': (0, 2 ** 10 - 1)}
        inrange = z3.And([_in(vals[k][i], *rng[k]) for k in rng for i in range(n)])
        if raised:
            ctx.require(z3.Not(inrange), 'specobjid: ValueError only for out-of-range fields (true MJD > 50000 in array calls)', d)
            return
        ctx.require(inrange, 'specobjid: out-of-range field must be rejected', d)
        # the caller's arrays still hold the fields that were packed (a second call would otherwise disagree with the first)
        for k in names:
            for i in range(n):
                e = arr[k][i]
                ctx.require(isinstance(e, BV) and e.term == f[k][i].term, 'specobjid: the array arguments are not modified', dict(d, field=k, i=i))
        for i in range(n):
            o = out[i]
            ctx.require(isinstance(o, BV) and o.dtype == np.dtype('u8'), 'specobjid: uint64 result', d)
            ctx.require(o.term == _spec_expected(vals, i), 'specobjid: documented layout', dict(d, i=i))
        un = unwrap_specobjid(out, run2d_integer=True, specLineIndex=(low == 'index'))
        back = {'plate': un.plate, 'fiber': un.fiber, 'mjd': un.mjd, 'run2d': un.run2d,
                'line': un['index'] if low == 'index' else un['line']}
        for name in back:
            for i in range(n):
                ctx.require(z3.SignExt(32, back[name][i].term) == vals[name][i],
                            'specobjid: unwrap(pack) returns the field', dict(d, field=name, i=i))
    return Obligation('specobjid array n=%d low=%s' % (n, low), fn, bounds='n=%d, every 64-bit field value' % n)


def ob_specobjid_scalar(low):
    def fn(ctx):
        from pydl.pydlutils.sdss import sdss_specobjid
        names = ['plate', 'fiber', 'mjd', 'run2d'] + ([low] if low else [])
        f = {k: ctx.int64(k) for k in names}
        d = {'fn': 'specobjid_scalar', 'low': low}
        kw = {low: f[low]} if low else {}
        try:
            out = sdss_specobjid(f['plate'], f['fiber'], f['mjd'], f['run2d'], **kw)
            raised = None
        except ValueError:
            raised = 'ValueError'
        except Exception as e:
            ctx.fail('specobjid scalar: unexpected %s' % type(e).__name__, d)
            return
        v = {k: f[k].v for k in names}
        v['line'] = v[low] if low else z3.BitVecVal(0, 128)
        rng = {'plate': (0, 2 ** 14 - 1), 'fiber': (0, 2 ** 12 - 1), 'mjd': (50000, 50000 + 2 ** 14 - 1),
               'run2d': (0, 2 ** 14 - 1), 'line': (0, 2 ** 10 - 1)}
        inrange = z3.And([z3.And(v[k] >= rng[k][0], v[k] <= rng[k][1]) for k in rng])
        if raised:
            ctx.require(z3.Not(inrange), 'specobjid scalar: ValueError only for out-of-range fields', d)
            return
        ctx.require(inrange, 'specobjid scalar: out-of-range field must be rejected', d)
        layout = (v['plate'] * 2 ** 50 + v['fiber'] * 2 ** 38 + (v['mjd'] - 50000) * 2 ** 24 + v['run2d'] * 2 ** 10 + v['line'])
        ctx.require(z3.ZeroExt(64, out[0].term) == layout, 'specobjid scalar: documented layout (== array call)', d)
    return Obligation('specobjid scalar low=%s' % low, fn, bounds='every int64 value per field')


def ob_unwrap_any(kind):
    """unwrap of an ARBITRARY 64-bit id: fields are the documented bit ranges; re-packing gives the id back."""
    def fn(ctx):
        from pydl.pydlutils.sdss import sdss_objid, sdss_specobjid, unwrap_specobjid
        from pydl.photoop.photoobj import unwrap_objid
        d = {'fn': 'unwrap_' + kind}
        if kind == 'objid':
            x = ctx.bv('id', 'i8')
            un = unwrap_objid(symnp._build_object([x]))
            got = {'skyversion': un.skyversion, 'rerun': un.rerun, 'run': un.run, 'camcol': un.camcol,
                   'firstfield': un.firstfield, 'field': un.frame, 'objnum': un.id}
            for name, off, width in OBJ_FIELDS:
                ctx.require(z3.ZeroExt(32, got[name][0].term) == (z3.LShR(x.term, off) & (2 ** width - 1)),
                            'unwrap_objid: field = documented bit range', dict(d, field=name))
        else:
            x = ctx.bv('id', 'u8')
            un = unwrap_specobjid(symnp._build_object([x]), run2d_integer=True)
            got = {'plate': un.plate, 'fiber': un.fiber, 'mjd': un.mjd, 'run2d': un.run2d, 'line': un.line}
            for name, off, width in SPEC_FIELDS:
                e = z3.LShR(x.term, off) & (2 ** width - 1)
                if name == 'mjd':
                    e = e + 50000
                ctx.require(z3.ZeroExt(32, got[name][0].term) == e,
                            'unwrap_specobjid: field = documented bit range', dict(d, field=name))
            # re-pack (array call, true MJD) returns the id
            try:
                back = sdss_specobjid(*[symnp._build_object([BV(z3.ZeroExt(32, got[k][0].term), 'i8')])
                                        for k in ('plate', 'fiber', 'mjd', 'run2d')],
                                      line=symnp._build_object([BV(z3.ZeroExt(32, got['line'][0].term), 'i8')]))
                ctx.require(back[0].term == x.term, 'specobjid: pack(unwrap(id)) == id', d)
            except ValueError:
                ctx.fail('specobjid: pack(unwrap(id)) rejected', d)
    return Obligation('unwrap any %s' % kind, fn, bounds='every 64-bit id')


def ob_shape_errors():
    def fn(ctx):
        from pydl.pydlutils.sdss import sdss_objid, sdss_specobjid
        x = ctx.bv('x', 'i8')
        ctx.assume(z3.And(x.term >= 1, x.term <= 6))

        def a(n):
            return symnp._build_object([x] * n)
        bad = 0
        cases = []
        for pos in range(7):
            args = [a(2)] * 4
            kw = {}
            if pos < 4:
                args = list(args)
                args[pos] = a(3)
            else:
                kw = {('rerun', 'skyversion', 'firstfield')[pos - 4]: a(3)}
            try:
                sdss_objid(*args, **kw)
                ok = False
            except ValueError:
                ok = True
            ctx.require(ok, 'objid: inconsistent array lengths -> ValueError', {'fn': 'shape', 'which': 'objid', 'pos': pos})
        for pos in range(6):
            args = [a(2)] * 4
            kw = {}
            if pos < 4:
                args = list(args)
                args[pos] = a(1)
            else:
                kw = {('line', 'index')[pos - 4]: a(3)}
            try:
                sdss_specobjid(*args, **kw)
                ok = False
            except ValueError:
                ok = True
            ctx.require(ok, 'specobjid: inconsistent array lengths -> ValueError', {'fn': 'shape', 'which': 'spec', 'pos': pos})
        # line and index together
        l = ctx.int64('line')
        i = ctx.int64('index')
        try:
            sdss_specobjid(1, 1, 55000, 1, line=l, index=i)
            ok = False
        except ValueError:
            ok = True
        ctx.require(ok, 'specobjid: line and index together -> ValueError', {'fn': 'shape', 'which': 'both'})
    return Obligation('length mismatch and line+index', fn, bounds='lengths 1..3', expect_symbolic=False)


def obligations(tier, seed):
    obs = []
    nmax = 2 if tier == 'quick' else 3
    for n in range(1, nmax + 1):
        obs.append(ob_objid_array(n, False))
        if n <= 2 or tier != 'quick':
            obs.append(ob_objid_array(n, True))
        for low in (None, 'line', 'index'):
            obs.append(ob_specobjid_array(n, low))
    obs.append(ob_objid_scalar())
    for low in (None, 'line', 'index'):
        obs.append(ob_specobjid_scalar(low))
    obs.append(ob_unwrap_any('objid'))
    obs.append(ob_unwrap_any('specobjid'))
    obs.append(ob_shape_errors())
    try:
        from . import C06_strings
        obs.extend(C06_strings.obligations(tier, seed))
    except ImportError:
        pass
    return obs


# ------------------------------------------------------------------ replay
def _s64(v):
    v = int(v)
    return v - (1 << 64) if v >= (1 << 63) else v


def replay(rec):
    from pydl.pydlutils.sdss import sdss_objid, sdss_specobjid, unwrap_specobjid
    from pydl.photoop.photoobj import unwrap_objid
    d = rec['detail'] or {}
    inp = rec['inputs'] or {}
    fn = d.get('fn')
    if fn in ('objid_array', 'objid_scalar'):
        scalar = fn == 'objid_scalar'
        n = 1 if scalar else d['n']
        names = ['run', 'camcol', 'field', 'objnum', 'rerun', 'skyversion', 'firstfield']
        default = {'rerun': 301, 'skyversion': 2, 'firstfield': 0}
        optional = scalar or d['optional']
        vals = {}
        for k in names:
            if k in default and not optional:
                vals[k] = [default[k]] * n
            else:
                vals[k] = [_s64(inp[k]) if scalar else _s64(inp['%s%d' % (k, i)]) for i in range(n)]
        inrange = all(OBJ_RANGES[k][0] <= v <= OBJ_RANGES[k][1] for k in names for v in vals[k])
        try:
            if scalar:
                out = sdss_objid(vals['run'][0], vals['camcol'][0], vals['field'][0], vals['objnum'][0],
                                 rerun=vals['rerun'][0], skyversion=vals['skyversion'][0], firstfield=vals['firstfield'][0])
            else:
                kw = {k: np.array(vals[k], dtype='i8') for k in default} if optional else {}
                out = sdss_objid(*[np.array(vals[k], dtype='i8') for k in names[:4]], **kw)
        except ValueError:
            return inrange
        except Exception:
            return True
        if not inrange:
            return True
        for i in range(n):
            exp = sum(vals[name][i] << off for name, off, w in OBJ_FIELDS)
            if int(out[i]) != exp:
                return True
        un = unwrap_objid(np.asarray(out, dtype='i8'))
        back = {'skyversion': un.skyversion, 'rerun': un.rerun, 'run': un.run, 'camcol': un.camcol,
                'firstfield': un.firstfield, 'field': un.frame, 'objnum': un.id}
        return any(int(back[k][i]) != vals[k][i] for k in back for i in range(n))
    if fn in ('specobjid_array', 'specobjid_scalar'):
        scalar = fn == 'specobjid_scalar'
        n = 1 if scalar else d['n']
        low = d['low']
        names = ['plate', 'fiber', 'mjd', 'run2d'] + ([low] if low else [])
        vals = {k: [_s64(inp[k]) if scalar else _s64(inp['%s%d' % (k, i)]) for i in range(n)] for k in names}
        vals['line'] = vals[low] if low else [0] * n
        rng = {'plate': (0, 2 ** 14 - 1), 'fiber': (0, 2 ** 12 - 1), 'mjd': (50000, 50000 + 2 ** 14 - 1),
               'run2d': (0, 2 ** 14 - 1), 'line': (0, 2 ** 10 - 1)}
        inrange = all(rng[k][0] <= v <= rng[k][1] for k in rng for v in vals[k])
        try:
            if scalar:
                kw = {low: vals[low][0]} if low else {}
                out = sdss_specobjid(vals['plate'][0], vals['fiber'][0], vals['mjd'][0], vals['run2d'][0], **kw)
            else:
                kw = {low: np.array(vals[low], dtype='i8')} if low else {}
                args = [np.array(vals[k], dtype='i8') for k in names[:4]]
                out = sdss_specobjid(*args, **kw)
                if inrange and any(a.tolist() != vals[k] for a, k in zip(args, names[:4])):
                    return True          # the caller's arrays were modified
        except ValueError:
            return inrange
        except Exception:
            return True
        if not inrange:
            return True
        for i in range(n):
            exp = (vals['plate'][i] << 50) | (vals['fiber'][i] << 38) | ((vals['mjd'][i] - 50000) << 24) | \
                  (vals['run2d'][i] << 10) | vals['line'][i]
            if int(out[i]) != exp:
                return True
        un = unwrap_specobjid(np.asarray(out, dtype='u8'), run2d_integer=True, specLineIndex=(low == 'index'))
        back = {'plate': un.plate, 'fiber': un.fiber, 'mjd': un.mjd, 'run2d': un.run2d,
                'line': un['index'] if low == 'index' else un['line']}
        return any(int(back[k][i]) != vals[k][i] for k in back for i in range(n))
    if fn in ('unwrap_objid', 'unwrap_specobjid'):
        x = int(inp['id'])
        if fn == 'unwrap_objid':
            un = unwrap_objid(np.array([_s64(x)], dtype='i8'))
            got = {'skyversion': un.skyversion, 'rerun': un.rerun, 'run': un.run, 'camcol': un.camcol,
                   'firstfield': un.firstfield, 'field': un.frame, 'objnum': un.id}
            return any(int(got[name][0]) != ((x >> off) & (2 ** w - 1)) for name, off, w in OBJ_FIELDS)
        un = unwrap_specobjid(np.array([x], dtype='u8'), run2d_integer=True)
        got = {'plate': un.plate, 'fiber': un.fiber, 'mjd': un.mjd, 'run2d': un.run2d, 'line': un.line}
        for name, off, w in SPEC_FIELDS:
            e = (x >> off) & (2 ** w - 1)
            if name == 'mjd':
                e += 50000
            if int(got[name][0]) != e:
                return True
        try:
            back = sdss_specobjid(*[np.array([int(got[k][0])], dtype='i8') for k in ('plate', 'fiber', 'mjd', 'run2d')],
                                  line=np.array([int(got['line'][0])], dtype='i8'))
        except ValueError:
            return True
        return int(back[0]) != x
    if fn == 'shape':
        return True   # concrete enumeration: re-run not needed, treat as reproduced only if still failing
    try:
        from . import C06_strings
        return C06_strings.replay(rec)
    except ImportError:
        return False
