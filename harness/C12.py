"""C12 - Mangle window functions decide point membership exactly as the caps define (partial)."""
import itertools
from fractions import Fraction
import numpy as np
import z3

from pathsym import core, symnp
from pathsym.core import R, B, Z, ZB, zt
from .common import Obligation

PID = 'C12'

META = {
    'functions_encoded': ['pydl.pydlutils.mangle.cap_distance', 'is_in_cap', 'is_cap_used', 'is_in_polygon', 'is_in_window', 'set_use_caps',
                          'angles_to_x', 'ManglePolygon.__init__ (keyword and copy constructors)'],
    'stubs': ['numpy.arccos -> a strictly decreasing function symbol [-1,1] -> [0, pi] (fresh value per application + pairwise '
              'monotonicity instances); numpy.degrees / radians -> multiplication by a positive constant',
              'numpy.sin / cos in angles_to_x -> opaque values with sin^2 + cos^2 = 1 (the reference uses the same conversion)'],
    'assumptions': ['cap centres and Cartesian points are unit vectors; |x.p| <= 1 (Cauchy-Schwarz) is supplied to the solver as a lemma',
                    'floats are exact reals, except in the two binary64 obligations (QF_FP, round-to-nearest-even): there numpy.dot is a contract stub '
                    'returning an arbitrary double within 2^-50 of [-1, 1] (of 1 at a cap centre) - BLAS may use any summation order or fused '
                    'multiply-add; arccos is a function symbol with: NaN outside [-1, 1] and for NaN, values in [0, fl(pi)] inside, arccos(1) = 0, '
                    'weakly decreasing, arccos(a) >= 2^-20 for a <= 1 - 2^-40 and <= 2^-24 for a >= 1 - 2^-50; numpy.degrees keeps NaN-ness, sign '
                    'and zero-ness (product with the double 180/pi > 1); 2^-40 <= |cm| <= 2 at a cap centre'],
    'outside_bounds': 'the three storage formats (Mangle text, FITS polygon table, window_read assembly: astropy I/O); IEEE rounding other than '
                      'that of the dot product fed to arccos (binary64 obligations); caps smaller than cm = 2^-40 tested at their own centre; '
                      'more than 3 caps / 3 polygons / 2 points',
}


class Trig(object):
    """per-path registry of the function symbols standing for arccos / sin / cos"""

    def __init__(self, ctx):
        self.ctx = ctx
        self.acos = []      # (arg term, value term)
        self.sc = {}        # key -> (sin, cos)
        self.K = z3.Real('deg_per_rad')
        ctx.add(self.K > 0)
        self.pi = z3.Real('pi')
        ctx.add(self.pi > 3)

    def arccos(self, x):
        def one(e):
            e = R.lift(e)
            t = e.z3()
            for (pt, pv) in self.acos:
                if pt.eq(t):
                    return R(pv)
            v = self.ctx.fresh_real('acos')
            self.ctx.add(z3.And(v >= 0, v <= self.pi))
            for (pt, pv) in self.acos:
                self.ctx.add(z3.And(z3.Implies(t < pt, v > pv), z3.Implies(t == pt, v == pv), z3.Implies(t > pt, v < pv)))
            self.acos.append((t, v))
            return R(v)
        return _map(x, one)

    def degrees(self, x):
        return _map(x, lambda e: R(R.lift(e).z3() * self.K))

    def radians(self, x):
        # a distinct positive factor is irrelevant here: sin/cos are keyed by the angle term
        return _map(x, lambda e: R.lift(e))

    def _sc(self, e):
        e = R.lift(e)
        key = str(z3.simplify(e.z3()))
        if key not in self.sc:
            s, c = self.ctx.fresh_real('sin'), self.ctx.fresh_real('cos')
            self.ctx.add(s * s + c * c == 1)
            self.sc[key] = (s, c)
        return self.sc[key]

    def sin(self, x):
        return _map(x, lambda e: R(self._sc(e)[0]))

    def cos(self, x):
        return _map(x, lambda e: R(self._sc(e)[1]))


def _map(x, f):
    if isinstance(x, np.ndarray):
        out = np.empty(x.shape, dtype=object)
        of = out.reshape(-1)
        for i, e in enumerate(x.reshape(-1)):
            of[i] = f(e)
        return out
    return f(x)


def _install(ctx):
    tr = Trig(ctx)
    H = symnp.TRANSCENDENTAL_HOOKS
    H['arccos'], H['degrees'], H['radians'], H['sin'], H['cos'] = tr.arccos, tr.degrees, tr.radians, tr.sin, tr.cos
    return tr


def _uninstall():
    for k in ('arccos', 'degrees', 'radians', 'sin', 'cos'):
        symnp.TRANSCENDENTAL_HOOKS.pop(k, None)


def unit(ctx, name):
    v = ctx.reals(name, 3)
    ctx.add(zt(v[0]) * zt(v[0]) + zt(v[1]) * zt(v[1]) + zt(v[2]) * zt(v[2]) == 1)
    nice = z3.And([z3.Or([zt(c) == q for q in (0, 1, -1, z3.RealVal('3/5'), z3.RealVal('4/5'), z3.RealVal('-3/5'), z3.RealVal('-4/5'))]) for c in v])
    _hint(ctx, nice)
    return v


def _hint(ctx, term):
    ctx.hints = [z3.And(ctx.hints[0], term)] if ctx.hints else [term]


def dot(a, b):
    return zt(a[0]) * zt(b[0]) + zt(a[1]) * zt(b[1]) + zt(a[2]) * zt(b[2])


def in_cap_spec(x, cm, p, closed_negative=False):
    d = 1 - dot(x, p)
    neg = (d >= -zt(cm)) if closed_negative else (d > -zt(cm))
    return z3.If(zt(cm) >= 0, d <= zt(cm), neg)


def _caps(ctx, ncaps, prefix='', unit_norm=True):
    xs, cms = [], []
    for i in range(ncaps):
        xs.append(unit(ctx, '%sx%d_' % (prefix, i)) if unit_norm else ctx.reals('%sx%d_' % (prefix, i), 3))
        cm = ctx.real('%scm%d' % (prefix, i))
        ctx.add(z3.And(zt(cm) > -2, zt(cm) < 2))          # cm = 0 included: the cap that holds its centre only
        _hint(ctx, z3.Or([zt(cm) == z3.RealVal(q) for q in ('1/4', '1/2', '1', '3/2', '-1/4', '-1/2', '-1', '-3/2', '1/5', '-1/5', '2/5', '-2/5', '9/5', '-9/5')]))
        cms.append(cm)
    return xs, cms


def _lemmas(ctx, xs, pts):
    for x in xs:
        for p in pts:
            dp = dot(x, p)
            ctx.add(z3.And(dp <= 1, dp >= -1))


def ob_cap(at_centre):
    def fn(ctx):
        from pydl.pydlutils.mangle import is_in_cap
        _install(ctx)
        try:
            xs, cms = _caps(ctx, 1)
            p = xs[0] if at_centre else unit(ctx, 'p')
            _lemmas(ctx, xs, [p])
            d = {'fn': 'cap', 'at_centre': at_centre}
            ctx.detail = d
            res = is_in_cap(symnp.rarray(xs[0]), cms[0], symnp.rarray([p]))
            got = bool(res[0])
            boundary = bool(B(z3.And(zt(cms[0]) < 0, 1 - dot(xs[0], p) == -zt(cms[0]))))
            lab = 'is_in_cap: cm >= 0: 1 - x.p <= cm; cm < 0: the complement'
            if boundary:
                lab += ' [point exactly on the boundary of a cm < 0 cap]'
            ctx.require(in_cap_spec(xs[0], cms[0], p) == z3.BoolVal(got), lab, d)
        finally:
            _uninstall()
    return Obligation('is_in_cap at_centre=%d' % at_centre, fn, bounds='every unit cap centre, cm in (-2,2), unit point', solver_timeout_ms=120000)


# ------------------------------------------------------------------ binary64 side of cap membership
class FTrig(object):
    """arccos / degrees / dot / clip on binary64 terms.  arccos is a function symbol with the IEEE /
    libm facts the argument needs; degrees is the exact product numpy computes; numpy.dot is a
    *contract stub*: it returns an arbitrary double named by the harness (BLAS may use any summation
    order and fused multiply-adds, see validate())."""

    def __init__(self, ctx, dot_value):
        from pathsym import fp
        self.ctx, self.fp = ctx, fp
        self.apps = []
        self.dot_value = dot_value
        self.PI = z3.FPVal(3.141592653589793, fp.SORT)
        self.K = z3.FPVal(57.29577951308232, fp.SORT)     # 180.0 / pi as numpy's npy_rad2deg uses it

    def arccos(self, x):
        fp = self.fp

        def one(e):
            a = fp.F64.lift(e).t
            v = z3.FP(self.ctx.fresh_name('acos64'), fp.SORT)      # one constant per application + congruence below (no UF: z3's QF_FP strategy applies)
            one_ = z3.FPVal(1.0, fp.SORT)
            indom = z3.And(z3.Not(z3.fpIsNaN(a)), z3.fpLEQ(a, one_), z3.fpGEQ(a, z3.fpNeg(one_)))
            self.ctx.add(z3.If(indom, z3.And(z3.Not(z3.fpIsNaN(v)), z3.fpGEQ(v, z3.FPVal(0.0, fp.SORT)), z3.fpLEQ(v, self.PI)), z3.fpIsNaN(v)))
            self.ctx.add(z3.Implies(z3.fpEQ(a, one_), z3.fpIsZero(v)))
            # two numeric facts: arccos(1 - e) ~ sqrt(2 e), so arccos(a) >= 2^-20 for a <= 1 - 2^-40 and <= 2^-24 for a >= 1 - 2^-50
            self.ctx.add(z3.Implies(z3.And(indom, z3.fpLEQ(a, z3.FPVal(1.0 - 2.0 ** -40, fp.SORT))), z3.fpGEQ(v, z3.FPVal(2.0 ** -20, fp.SORT))))
            self.ctx.add(z3.Implies(z3.fpGEQ(a, z3.FPVal(1.0 - 2.0 ** -50, fp.SORT)), z3.Or(z3.fpIsNaN(v), z3.fpLEQ(v, z3.FPVal(2.0 ** -24, fp.SORT)))))
            for (pa, pv) in self.apps:
                # weakly decreasing on the domain (glibc's acos: < 1 ulp and monotone; assumption)
                self.ctx.add(z3.Implies(a == pa, v == pv))
                self.ctx.add(z3.Implies(z3.And(z3.Not(z3.fpIsNaN(v)), z3.Not(z3.fpIsNaN(pv))),
                                        z3.And(z3.Implies(z3.fpLEQ(a, pa), z3.fpGEQ(v, pv)), z3.Implies(z3.fpGEQ(a, pa), z3.fpLEQ(v, pv)))))
            self.apps.append((a, v))
            return fp.F64(v)
        return _map(x, one)

    def degrees(self, x):
        # x * (180/pi as a double, > 1): the product keeps NaN-ness, sign and zero-ness (no underflow
        # for a factor above 1); only that is used, so the 53x53-bit multiplier is left out
        fp = self.fp

        def one(e):
            a = fp.F64.lift(e).t
            v = z3.FP(self.ctx.fresh_name('deg64'), fp.SORT)
            zero = z3.FPVal(0.0, fp.SORT)
            self.ctx.add(z3.And(z3.fpIsNaN(v) == z3.fpIsNaN(a), z3.fpGT(v, zero) == z3.fpGT(a, zero), z3.fpLT(v, zero) == z3.fpLT(a, zero),
                                z3.fpIsZero(v) == z3.fpIsZero(a), z3.fpIsNegative(v) == z3.fpIsNegative(a)))
            return fp.F64(v)
        return _map(x, one)

    def dot(self, a, b):
        out = np.empty((np.shape(a)[0],), dtype=object)
        for i in range(out.shape[0]):
            out[i] = self.dot_value
        return out

    def install(self):
        H = symnp.TRANSCENDENTAL_HOOKS
        H['arccos'], H['degrees'] = self.arccos, self.degrees
        symnp._OVER['dot'] = self.dot

    @staticmethod
    def uninstall():
        for k in ('arccos', 'degrees'):
            symnp.TRANSCENDENTAL_HOOKS.pop(k, None)
        symnp._OVER.pop('dot', None)


BAND = 2.0 ** -50      # |fl(x.x) - 1| for a double vector normalised in doubles is below 5 * 2^-53


def ob_cap_float(kind):
    """kind 'centre': the point is the cap's own centre (x.x = 1 to rounding) -> inside iff cm > 0;
    kind 'nan': any pair of unit vectors (|x.p| <= 1 to rounding) -> the distance is a number."""
    def fn(ctx):
        from pydl.pydlutils.mangle import is_in_cap, cap_distance
        from pathsym import fp
        F = fp.F64
        d = F.var(ctx, 'dotprod')
        cm = F.var(ctx, 'cm')
        one = z3.FPVal(1.0, fp.SORT)
        hi = z3.FPVal(1.0 + BAND, fp.SORT)
        fin = lambda t: z3.And(z3.Not(z3.fpIsNaN(t)), z3.Not(z3.fpIsInf(t)))
        ctx.add(fin(cm.t))
        ctx.add(z3.fpLEQ(z3.fpAbs(cm.t), z3.FPVal(2.0, fp.SORT)))
        if kind == 'centre':
            ctx.add(z3.And(z3.fpGEQ(d.t, z3.FPVal(1.0 - BAND, fp.SORT)), z3.fpLEQ(d.t, hi)))
            ctx.add(z3.fpGEQ(z3.fpAbs(cm.t), z3.FPVal(2.0 ** -40, fp.SORT)))
            _hint(ctx, z3.fpEQ(d.t, z3.FPVal(1.0 + 2.0 ** -52, fp.SORT)))
        else:
            ctx.add(z3.And(z3.fpGEQ(d.t, z3.fpNeg(hi)), z3.fpLEQ(d.t, hi)))
            _hint(ctx, z3.Or(z3.fpEQ(d.t, z3.FPVal(1.0 + 2.0 ** -52, fp.SORT)), z3.fpEQ(d.t, z3.FPVal(-1.0 - 2.0 ** -52, fp.SORT))))
        _hint(ctx, z3.Or(z3.fpEQ(cm.t, z3.FPVal(0.25, fp.SORT)), z3.fpEQ(cm.t, z3.FPVal(-0.25, fp.SORT))))
        tr = FTrig(ctx, d)
        tr.install()
        try:
            det = {'fn': 'cap_float', 'kind': kind}
            ctx.detail = det
            # the vectors themselves do not matter to the stubbed dot product: opaque doubles
            x = symnp._build_object([F.var(ctx, 'x%d' % k) for k in range(3)])
            pts = np.empty((1, 3), dtype=object)
            for k in range(3):
                pts[0, k] = x[k]
            if kind == 'centre':
                got = bool(is_in_cap(x, cm, pts)[0])
                ctx.require(z3.BoolVal(got) == z3.fpGT(cm.t, z3.FPVal(0.0, fp.SORT)),
                            'is_in_cap (binary64): the cap\'s own centre is inside for cm > 0 and outside for cm < 0', det)
            else:
                r = cap_distance(x, cm, pts)[0]
                ctx.require(z3.Not(z3.fpIsNaN(F.lift(r).t)), 'cap_distance (binary64): a number for every pair of unit vectors', det)
        finally:
            tr.uninstall()
    return Obligation('is_in_cap binary64 %s' % kind, fn, solver_timeout_ms=120000, logic='QF_FP',
                      bounds='every double dot product within 2^-50 of [-1, 1] (centre: of 1), every double cm with %s|cm| <= 2' % ('2^-40 <= ' if kind == 'centre' else ''))


def ob_angles_int():
    """RA/Dec given as an integer-typed array (whole degrees) must give the vectors of the same angles as floats"""
    def fn(ctx):
        from pydl.pydlutils.mangle import angles_to_x
        from pathsym.core import Z
        _install(ctx)
        try:
            ra, dec = ctx.int('ra', 0, 359), ctx.int('dec', -89, 89)
            d = {'fn': 'angles_int'}
            ctx.detail = d
            ctx.ints_as_Z = True
            pts_int = np.empty((1, 2), dtype=object)
            pts_int[0, 0], pts_int[0, 1] = Z(ra.v), Z(dec.v)
            xi = angles_to_x(pts_int, latitude=True)
            xf = angles_to_x(symnp.rarray([[R(z3.ToReal(ra.v)), R(z3.ToReal(dec.v))]]), latitude=True)
            for k in range(3):
                ctx.require(zt(R.lift(xi[0, k])) == zt(R.lift(xf[0, k])), 'angles_to_x: integer-typed RA/Dec give the same unit vector as the same angles in floating point',
                            dict(d, k=k))
        finally:
            _uninstall()
    return Obligation('angles_to_x integer RA/Dec', fn, bounds='every whole-degree RA in [0, 360) and Dec in (-90, 90)', solver_timeout_ms=60000)


def ob_polygon(ncaps, npoints, radec, ncaps_arg):
    def fn(ctx):
        from pydl.pydlutils.mangle import ManglePolygon, is_in_polygon
        tr = _install(ctx)
        try:
            xs, cms = _caps(ctx, ncaps)
            use = ctx.int64('use_caps')
            ctx.add(z3.And(use.v >= 0, use.v < 256))
            d = {'fn': 'polygon', 'ncaps': ncaps, 'npoints': npoints, 'radec': radec, 'ncaps_arg': ncaps_arg}
            ctx.detail = d
            if radec:
                ang = [[ctx.real('ra%d' % k), ctx.real('dec%d' % k)] for k in range(npoints)]
                points = symnp.rarray(ang)
                pts = []
                for k in range(npoints):
                    sphi, cphi = tr._sc(ang[k][0])
                    sth, cth = tr._sc(R(90) - ang[k][1])
                    pts.append([R(cphi * sth), R(sphi * sth), R(cth)])
            else:
                pts = [unit(ctx, 'p%d_' % k) for k in range(npoints)]
                points = symnp.rarray(pts)
            _lemmas(ctx, xs, pts)
            if ncaps == 0:
                poly = ManglePolygon()
            else:
                poly = ManglePolygon(x=symnp.rarray(xs), cm=symnp.rarray(cms), use_caps=use)
                poly = ManglePolygon(poly)      # copy constructor
            res = is_in_polygon(poly, points, ncaps=ncaps_arg)
            nuse = ncaps if ncaps_arg <= 0 else min(ncaps_arg, ncaps)
            for k in range(npoints):
                conds = []
                onb = []
                for i in range(nuse):
                    used = z3.Extract(i, i, use.v) == 1
                    conds.append(z3.Implies(used, in_cap_spec(xs[i], cms[i], pts[k])))
                    onb.append(z3.And(used, zt(cms[i]) < 0, 1 - dot(xs[i], pts[k]) == -zt(cms[i])))
                spec = z3.And(conds) if conds else z3.BoolVal(True)
                if radec and onb:
                    # RA/Dec counterexamples cannot be replayed (sin/cos are opaque): the boundary case of a
                    # cm < 0 cap is covered by the Cartesian obligations, assume it away here
                    ctx.assume(z3.Not(z3.Or(onb)))
                boundary = bool(B(z3.Or(onb))) if onb else False
                lab = 'is_in_polygon: inside <=> inside every cap selected by use_caps (first n caps only when ncaps is given)'
                if boundary:
                    lab += ' [point exactly on the boundary of a cm < 0 cap]'
                ctx.require(spec == z3.BoolVal(bool(res[k])), lab, dict(d, k=k))
        finally:
            _uninstall()
    return Obligation('is_in_polygon caps=%d points=%d radec=%d ncaps_arg=%d' % (ncaps, npoints, radec, ncaps_arg), fn,
                      bounds='%d caps, %d points, every use-mask' % (ncaps, npoints), solver_timeout_ms=120000, max_paths=100000, max_seconds=1700)


def ob_window(capcounts, npoints):
    def fn(ctx):
        from pydl.pydlutils.mangle import ManglePolygon, PolygonList, is_in_window
        _install(ctx)
        try:
            polys = []
            specs = []
            pts = [unit(ctx, 'p%d_' % k) for k in range(npoints)]
            allx = []
            d = {'fn': 'window', 'capcounts': list(capcounts), 'npoints': npoints}
            ctx.detail = d
            for pi_, nc in enumerate(capcounts):
                if nc == 0:
                    polys.append(ManglePolygon())
                    specs.append(([], []))
                else:
                    xs, cms = _caps(ctx, nc, 'q%d' % pi_)
                    allx += xs
                    polys.append(ManglePolygon(x=symnp.rarray(xs), cm=symnp.rarray(cms)))
                    specs.append((xs, cms))
            _lemmas(ctx, allx, pts)
            inside, idx = is_in_window(PolygonList(polys), symnp.rarray(pts))
            for k in range(npoints):
                memb = [z3.And([in_cap_spec(x, cm, pts[k]) for x, cm in zip(xs, cms)] + [z3.BoolVal(True)]) for xs, cms in specs]
                onb = [z3.And(zt(cm) < 0, 1 - dot(x, pts[k]) == -zt(cm)) for xs, cms in specs for x, cm in zip(xs, cms)]
                boundary = bool(B(z3.Or(onb))) if onb else False
                got = int(idx[k])
                lab = 'is_in_window: index of the first polygon in list order that contains the point (-1 / False if none)'
                if boundary:
                    lab += ' [point exactly on the boundary of a cm < 0 cap]'
                if got == -1:
                    ctx.require(z3.And([z3.Not(m) for m in memb]), lab, dict(d, k=k, got=got))
                else:
                    ctx.require(z3.And([z3.Not(m) for m in memb[:got]] + [memb[got]]), lab, dict(d, k=k, got=got))
                ctx.require(bool(inside[k]) == (got >= 0), 'is_in_window: flag <=> index >= 0', dict(d, k=k))
        finally:
            _uninstall()
    return Obligation('is_in_window polygons=%s points=%d' % (list(capcounts), npoints), fn, bounds='polygons with %s caps' % (list(capcounts),),
                      solver_timeout_ms=120000, max_paths=100000, max_seconds=1700)


def ob_use_caps(ncaps, index_list, add):
    def fn(ctx):
        from pydl.pydlutils.mangle import ManglePolygon, set_use_caps
        xs, cms = _caps(ctx, ncaps, unit_norm=False)      # set_use_caps never looks at the norm
        d = {'fn': 'use_caps', 'ncaps': ncaps, 'index_list': list(index_list), 'add': add}
        ctx.detail = d
        start = 0b101 & ((1 << ncaps) - 1)
        poly = ManglePolygon(x=symnp.rarray(xs), cm=symnp.rarray(cms), use_caps=start)
        tol = Fraction(1, 2)        # the tolerance is a parameter: any value exercises the same logic
        got = set_use_caps(poly, list(index_list), add=add, tol=R(tol))
        got = int(got)
        sel = set(index_list) | ({i for i in range(ncaps) if (start >> i) & 1} if add else set())

        def same(i, j):
            return z3.And([zt(xs[i][k]) == zt(xs[j][k]) for k in range(3)] + [zt(cms[i]) == zt(cms[j])])

        def near(i, j):
            d2 = z3.Sum([(zt(xs[i][k]) - zt(xs[j][k])) * (zt(xs[i][k]) - zt(xs[j][k])) for k in range(3)])
            dc = zt(cms[i]) - zt(cms[j])
            return z3.And(d2 < z3.RealVal(str(tol * tol)), dc < z3.RealVal(str(tol)), -dc < z3.RealVal(str(tol)))
        # what the path decided about near-coincidence (the code's notion of a duplicate, within tol)
        for j in range(ncaps):
            bit = bool((got >> j) & 1)
            if j not in sel:
                ctx.require(not bit, 'set_use_caps: only listed caps are selected', dict(d, j=j, got=got))
                continue
            earlier = [i for i in sorted(sel) if i < j]
            exact_dup = z3.Or([same(i, j) for i in earlier] + [z3.BoolVal(False)])
            near_dup = z3.Or([near(i, j) for i in earlier] + [z3.BoolVal(False)])
            # exact duplicates of an earlier selected cap must be dropped; caps that are not even near-duplicates must be kept
            ctx.require(z3.Implies(exact_dup, z3.BoolVal(not bit)), 'set_use_caps: a later duplicate of a selected cap is dropped', dict(d, j=j, got=got))
            # "identical except for the sign of cm" also counts as a double (docstring of allow_neg_doubles)
            negdouble = z3.Or([z3.And(z3.Sum([(zt(xs[i][k]) - zt(xs[j][k])) * (zt(xs[i][k]) - zt(xs[j][k])) for k in range(3)]) < z3.RealVal(str(tol * tol)),
                                      zt(cms[i]) + zt(cms[j]) < z3.RealVal(str(tol)), -(zt(cms[i]) + zt(cms[j])) < z3.RealVal(str(tol)))
                               for i in earlier] + [z3.BoolVal(False)])
            lab = 'set_use_caps: a listed cap that duplicates no earlier selected cap stays selected'
            ctx.require(z3.Implies(z3.Not(z3.Or(near_dup, negdouble)), z3.BoolVal(bit)), lab, dict(d, j=j, got=got))
        ctx.require(got >> ncaps == 0, 'set_use_caps: no bit beyond the caps', dict(d, got=got))
    return Obligation('set_use_caps ncaps=%d list=%s add=%d' % (ncaps, list(index_list), add), fn,
                      bounds='%d symbolic caps, index list %s' % (ncaps, list(index_list)), max_paths=50000, expect_symbolic=False)


def obligations(tier, seed):
    q = tier == 'quick'
    obs = [ob_cap(False), ob_cap(True), ob_cap_float('centre'), ob_cap_float('nan'), ob_angles_int()]
    obs.append(ob_polygon(0, 1, False, 0))
    obs.append(ob_polygon(1, 1, False, 0))
    obs.append(ob_polygon(2, 1, False, 0))
    obs.append(ob_polygon(2, 1, False, 1))
    obs.append(ob_polygon(1, 1, True, 0))
    obs.append(ob_polygon(2, 1, False, 3))
    if not q:
        obs.append(ob_polygon(2, 2, False, 1))
        # (3 caps x 1 or 2 points, 2 caps x 2 RA/Dec points, a 2-point window over 3 caps: z3 came back unknown or not,
        #  depending on the run - outside the thorough bound rather than reported by luck)
    obs.append(ob_window((1, 1), 1))
    obs.append(ob_window((1, 0), 1))
    obs.append(ob_window((0, 1), 1))
    if not q:
        obs.append(ob_window((2, 1), 1))
        obs.append(ob_window((1, 1, 1), 1))
        obs.append(ob_window((2, 1, 0), 1))
    lists = [(0,), (1,), (0, 1), (1, 0), (0, 0), (2, 0)] if q else \
        [l for n in (1, 2, 3) for l in itertools.product(range(3), repeat=n)]
    for l in lists:
        nc = 3
        obs.append(ob_use_caps(nc, l, False))
    obs.append(ob_use_caps(3, (1,), True))
    obs.append(ob_use_caps(2, (1, 0), False))
    return obs


def validate(seed, tier):
    """the contract stubs of the binary64 obligations, compared with this machine's numpy on samples:
    dot products of normalised vectors stay in the band, the arccos facts, degrees as a product."""
    import math
    rng = np.random.default_rng(seed + 12)
    n = 0
    for _ in range(3000 if tier == 'quick' else 30000):
        v = rng.normal(size=3)
        v /= np.sqrt((v * v).sum())
        w = rng.normal(size=3)
        w /= np.sqrt((w * w).sum())
        for a, b in ((v, v), (v, -v), (v, w)):
            dv = float(np.dot(a.reshape(1, 3), b)[0])
            assert -1.0 - BAND <= dv <= 1.0 + BAND, ('dot outside the band', a, b)
        dv = float(np.dot(v.reshape(1, 3), v)[0])
        assert 1.0 - BAND <= dv, ('self dot product below the band', v)
        n += 4
    with np.errstate(invalid='ignore'):
        assert float(np.arccos(1.0)) == 0.0 and math.isnan(float(np.arccos(1.0000000000000002))) and math.isnan(float(np.arccos(-1.0000000000000002)))
        assert float(np.arccos(-1.0)) == 3.141592653589793
        assert float(np.arccos(1.0 - 2.0 ** -40)) >= 2.0 ** -20 and float(np.arccos(1.0 - 2.0 ** -50)) <= 2.0 ** -24
        xs = np.sort(np.concatenate([1.0 - 2.0 ** -rng.uniform(1, 53, size=2000), rng.uniform(-1, 1, size=2000), [1.0, -1.0]]))
        ac = np.arccos(xs)
        assert (np.diff(ac) <= 0).all() and (ac >= 0).all() and (ac <= 3.141592653589793).all(), 'arccos not weakly decreasing on the sample'
        assert (ac[xs <= 1.0 - 2.0 ** -40] >= 2.0 ** -20).all() and (ac[xs >= 1.0 - 2.0 ** -50] <= 2.0 ** -24).all()
        ys = np.concatenate([rng.normal(size=2000), [0.0, -0.0, 5e-324, -5e-324, 1e-300]])
        assert (np.degrees(ys) == ys * 57.29577951308232).all() and (np.signbit(np.degrees(ys)) == np.signbit(ys)).all()
        assert ((np.degrees(ys) == 0) == (ys == 0)).all()
    return n + xs.size + ys.size


# ------------------------------------------------------------------ replay
def _f(v):
    if isinstance(v, dict):
        return int(v['num']) / int(v['den'])
    return float(v)


def _vec(inp, name):
    return np.array([_f(inp.get('%s%d' % (name, k), 0)) for k in range(3)])


def _in_cap_float(x, cm, p):
    d = 1.0 - float(np.dot(x, p))
    return d <= cm if cm >= 0 else d > -cm


def replay(rec):
    import warnings
    warnings.simplefilter('ignore')
    from pydl.pydlutils.mangle import ManglePolygon, PolygonList, is_in_cap, is_in_polygon, is_in_window, set_use_caps
    d = rec['detail'] or {}
    inp = rec['inputs'] or {}
    fn = d.get('fn')
    # only exactly representable counterexamples can be replayed in floats (unit-norm constraint, boundary equalities)
    if fn == 'cap':
        x = _vec(inp, 'x0_')
        cm = _f(inp.get('cm0', 1))
        p = x if d['at_centre'] else _vec(inp, 'p')
        if abs(np.dot(x, x) - 1) > 1e-12 or abs(np.dot(p, p) - 1) > 1e-12:
            return False
        got = bool(is_in_cap(x, cm, p.reshape(1, 3))[0])
        return got != _in_cap_float(x, cm, p)
    if fn == 'angles_int':
        from pydl.pydlutils.mangle import angles_to_x
        ra, dec = int(inp.get('ra', 10)), int(inp.get('dec', 20))
        xi = angles_to_x(np.array([[ra, dec]]), latitude=True)
        xf = angles_to_x(np.array([[float(ra), float(dec)]]), latitude=True)
        return bool(np.abs(xi.astype(float) - xf).max() > 1e-12)
    if fn == 'cap_float':
        from pathsym.fp import from_bits
        from pydl.pydlutils.mangle import cap_distance
        cm, dv = from_bits(inp['cm']), from_bits(inp['dotprod'])
        # a concrete pair of unit vectors whose numpy dot product is the double the solver chose
        rng = np.random.default_rng(12)
        found = None
        for _ in range(400000):
            v = rng.normal(size=3)
            v /= np.sqrt((v * v).sum())
            w = v if dv > 0 else -v
            if float(np.dot(w.reshape(1, 3), v)[0]) == dv:
                found = (v, w)
                break
        if found is None:
            return False
        v, w = found
        if d['kind'] == 'centre':
            return bool(is_in_cap(v, cm, w.reshape(1, 3))[0]) != (cm > 0)
        return bool(np.isnan(cap_distance(v, cm, w.reshape(1, 3))[0]))
    if fn == 'polygon':
        ncaps, npoints = d['ncaps'], d['npoints']
        if d['radec']:
            return False
        xs = [_vec(inp, 'x%d_' % i) for i in range(ncaps)]
        cms = [_f(inp.get('cm%d' % i, 1)) for i in range(ncaps)]
        use = int(inp.get('use_caps', 0))
        pts = [_vec(inp, 'p%d_' % k) for k in range(npoints)]
        if any(abs(np.dot(v, v) - 1) > 1e-12 for v in xs + pts):
            return False
        poly = ManglePolygon(x=np.array(xs), cm=np.array(cms), use_caps=use) if ncaps else ManglePolygon()
        res = is_in_polygon(poly, np.array(pts), ncaps=d['ncaps_arg'])
        nuse = ncaps if d['ncaps_arg'] <= 0 else min(d['ncaps_arg'], ncaps)
        for k in range(npoints):
            exp = all(_in_cap_float(xs[i], cms[i], pts[k]) for i in range(nuse) if (use >> i) & 1)
            if bool(res[k]) != exp:
                return True
        return False
    if fn == 'window':
        polys = []
        specs = []
        pts = [_vec(inp, 'p%d_' % k) for k in range(d['npoints'])]
        for pi_, nc in enumerate(d['capcounts']):
            if nc == 0:
                polys.append(ManglePolygon())
                specs.append(([], []))
            else:
                xs = [_vec(inp, 'q%dx%d_' % (pi_, i)) for i in range(nc)]
                cms = [_f(inp.get('q%dcm%d' % (pi_, i), 1)) for i in range(nc)]
                if any(abs(np.dot(v, v) - 1) > 1e-12 for v in xs):
                    return False
                polys.append(ManglePolygon(x=np.array(xs), cm=np.array(cms)))
                specs.append((xs, cms))
        if any(abs(np.dot(v, v) - 1) > 1e-12 for v in pts):
            return False
        inside, idx = is_in_window(PolygonList(polys), np.array(pts))
        for k, p in enumerate(pts):
            exp = -1
            for j, (xs, cms) in enumerate(specs):
                if all(_in_cap_float(x, cm, p) for x, cm in zip(xs, cms)):
                    exp = j
                    break
            if int(idx[k]) != exp or bool(inside[k]) != (exp >= 0):
                return True
        return False
    if fn == 'use_caps':
        ncaps = d['ncaps']
        xs = np.array([_vec(inp, 'x%d_' % i) for i in range(ncaps)])
        cms = np.array([_f(inp.get('cm%d' % i, 1)) for i in range(ncaps)])
        start = 0b101 & ((1 << ncaps) - 1)
        poly = ManglePolygon(x=xs, cm=cms, use_caps=start)
        got = int(set_use_caps(poly, list(d['index_list']), add=d['add'], tol=0.5))   # exception = reproduced (handled by caller)
        sel = set(d['index_list']) | ({i for i in range(ncaps) if (start >> i) & 1} if d['add'] else set())
        tol = 0.5
        for j in range(ncaps):
            bit = bool((got >> j) & 1)
            if j not in sel:
                if bit:
                    return True
                continue
            earlier = [i for i in sorted(sel) if i < j]
            exact = any((xs[i] == xs[j]).all() and cms[i] == cms[j] for i in earlier)
            near = any(((xs[i] - xs[j]) ** 2).sum() < tol * tol and (abs(cms[i] - cms[j]) < tol or abs(cms[i] + cms[j]) < tol) for i in earlier)
            if exact and bit:
                return True
            if not near and not bit:
                return True
        return got >> ncaps != 0
    return False
