"""C12 - Mangle window functions decide point membership exactly as the caps define (partial)."""
import itertools
from fractions import Fraction
import numpy as np
import z3

from pathsym import core, symnp
from pathsym.core import R, B, Z, ZB, zt
from .common import Obligation

PID = 'C12'

META = {
    'functions_encoded': ['pydl.pydlutils.mangle.cap_distance', 'is_in_cap', 'is_cap_used', 'is_in_polygon', 'is_in_window', 'set_use_caps',
                          'angles_to_x', 'ManglePolygon.__init__ (keyword and copy constructors)'],
    'stubs': ['numpy.arccos -> a strictly decreasing function symbol [-1,1] -> [0, pi] (fresh value per application + pairwise '
              'monotonicity instances); numpy.degrees / radians -> multiplication by a positive constant',
              'numpy.sin / cos in angles_to_x -> opaque values with sin^2 + cos^2 = 1 (the reference uses the same conversion)'],
    'assumptions': ['cap centres and Cartesian points are unit vectors; |x.p| <= 1 (Cauchy-Schwarz) is supplied to the solver as a lemma',
                    'floats are exact reals'],
    'outside_bounds': 'the three storage formats (Mangle text, FITS polygon table, window_read assembly: astropy I/O); IEEE rounding of x.p at a '
                      'cap centre (1+eps -> arccos NaN) is invisible in exact reals; more than 3 caps / 3 polygons / 2 points',
}


class Trig(object):
    """per-path registry of the function symbols standing for arccos / sin / cos"""

    def __init__(self, ctx):
        self.ctx = ctx
        self.acos = []      # (arg term, value term)
        self.sc = {}        # key -> (sin, cos)
        self.K = z3.Real('deg_per_rad')
        ctx.add(self.K > 0)
        self.pi = z3.Real('pi')
        ctx.add(self.pi > 3)

    def arccos(self, x):
        def one(e):
            e = R.lift(e)
            t = e.z3()
            for (pt, pv) in self.acos:
                if pt.eq(t):
                    return R(pv)
            v = self.ctx.fresh_real('acos')
            self.ctx.add(z3.And(v >= 0, v <= self.pi))
            for (pt, pv) in self.acos:
                self.ctx.add(z3.And(z3.Implies(t < pt, v > pv), z3.Implies(t == pt, v == pv), z3.Implies(t > pt, v < pv)))
            self.acos.append((t, v))
            return R(v)
        return _map(x, one)

    def degrees(self, x):
        return _map(x, lambda e: R(R.lift(e).z3() * self.K))

    def radians(self, x):
        # a distinct positive factor is irrelevant here: sin/cos are keyed by the angle term
        return _map(x, lambda e: R.lift(e))

    def _sc(self, e):
        e = R.lift(e)
        key = str(z3.simplify(e.z3()))
        if key not in self.sc:
            s, c = self.ctx.fresh_real('sin'), self.ctx.fresh_real('cos')
            self.ctx.add(s * s + c * c == 1)
            self.sc[key] = (s, c)
        return self.sc[key]

    def sin(self, x):
        return _map(x, lambda e: R(self._sc(e)[0]))

    def cos(self, x):
        return _map(x, lambda e: R(self._sc(e)[1]))


def _map(x, f):
    if isinstance(x, np.ndarray):
        out = np.empty(x.shape, dtype=object)
        of = out.reshape(-1)
        for i, e in enumerate(x.reshape(-1)):
            of[i] = f(e)
        return out
    return f(x)


def _install(ctx):
    tr = Trig(ctx)
    H = symnp.TRANSCENDENTAL_HOOKS
    H['arccos'], H['degrees'], H['radians'], H['sin'], H['cos'] = tr.arccos, tr.degrees, tr.radians, tr.sin, tr.cos
    return tr


def _uninstall():
    for k in ('arccos', 'degrees', 'radians', 'sin', 'cos'):
        symnp.TRANSCENDENTAL_HOOKS.pop(k, None)


def unit(ctx, name):
    v = ctx.reals(name, 3)
    ctx.add(zt(v[0]) * zt(v[0]) + zt(v[1]) * zt(v[1]) + zt(v[2]) * zt(v[2]) == 1)
    nice = z3.And([z3.Or([zt(c) == q for q in (0, 1, -1, z3.RealVal('3/5'), z3.RealVal('4/5'), z3.RealVal('-3/5'), z3.RealVal('-4/5'))]) for c in v])
    _hint(ctx, nice)
    return v


def _hint(ctx, term):
    ctx.hints = [z3.And(ctx.hints[0], term)] if ctx.hints else [term]


def dot(a, b):
    return zt(a[0]) * zt(b[0]) + zt(a[1]) * zt(b[1]) + zt(a[2]) * zt(b[2])


def in_cap_spec(x, cm, p, closed_negative=False):
    d = 1 - dot(x, p)
    neg = (d >= -zt(cm)) if closed_negative else (d > -zt(cm))
    return z3.If(zt(cm) >= 0, d <= zt(cm), neg)


def _caps(ctx, ncaps, prefix='', unit_norm=True):
    xs, cms = [], []
    for i in range(ncaps):
        xs.append(unit(ctx, '%sx%d_' % (prefix, i)) if unit_norm else ctx.reals('%sx%d_' % (prefix, i), 3))
        cm = ctx.real('%scm%d' % (prefix, i))
        ctx.add(z3.And(zt(cm) > -2, zt(cm) < 2, zt(cm) != 0))
        _hint(ctx, z3.Or([zt(cm) == z3.RealVal(q) for q in ('1/4', '1/2', '1', '3/2', '-1/4', '-1/2', '-1', '-3/2', '1/5', '-1/5', '2/5', '-2/5', '9/5', '-9/5')]))
        cms.append(cm)
    return xs, cms


def _lemmas(ctx, xs, pts):
    for x in xs:
        for p in pts:
            dp = dot(x, p)
            ctx.add(z3.And(dp <= 1, dp >= -1))


def ob_cap(at_centre):
    def fn(ctx):
        from pydl.pydlutils.mangle import is_in_cap
        _install(ctx)
        try:
            xs, cms = _caps(ctx, 1)
            p = xs[0] if at_centre else unit(ctx, 'p')
            _lemmas(ctx, xs, [p])
            d = {'fn': 'cap', 'at_centre': at_centre}
            ctx.detail = d
            res = is_in_cap(symnp.rarray(xs[0]), cms[0], symnp.rarray([p]))
            got = bool(res[0])
            boundary = bool(B(z3.And(zt(cms[0]) < 0, 1 - dot(xs[0], p) == -zt(cms[0]))))
            lab = 'is_in_cap: cm >= 0: 1 - x.p <= cm; cm < 0: the complement'
            if boundary:
                lab += ' [point exactly on the boundary of a cm < 0 cap]'
            ctx.require(in_cap_spec(xs[0], cms[0], p) == z3.BoolVal(got), lab, d)
        finally:
            _uninstall()
    return Obligation('is_in_cap at_centre=%d' % at_centre, fn, bounds='every unit cap centre, cm in (-2,2), unit point', solver_timeout_ms=120000)


def ob_polygon(ncaps, npoints, radec, ncaps_arg):
    def fn(ctx):
        from pydl.pydlutils.mangle import ManglePolygon, is_in_polygon
        tr = _install(ctx)
        try:
            xs, cms = _caps(ctx, ncaps)
            use = ctx.int64('use_caps')
            ctx.add(z3.And(use.v >= 0, use.v < 256))
            d = {'fn': 'polygon', 'ncaps': ncaps, 'npoints': npoints, 'radec': radec, 'ncaps_arg': ncaps_arg}
            ctx.detail = d
            if radec:
                ang = [[ctx.real('ra%d' % k), ctx.real('dec%d' % k)] for k in range(npoints)]
                points = symnp.rarray(ang)
                pts = []
                for k in range(npoints):
                    sphi, cphi = tr._sc(ang[k][0])
                    sth, cth = tr._sc(R(90) - ang[k][1])
                    pts.append([R(cphi * sth), R(sphi * sth), R(cth)])
            else:
                pts = [unit(ctx, 'p%d_' % k) for k in range(npoints)]
                points = symnp.rarray(pts)
            _lemmas(ctx, xs, pts)
            if ncaps == 0:
                poly = ManglePolygon()
            else:
                poly = ManglePolygon(x=symnp.rarray(xs), cm=symnp.rarray(cms), use_caps=use)
                poly = ManglePolygon(poly)      # copy constructor
            res = is_in_polygon(poly, points, ncaps=ncaps_arg)
            nuse = ncaps if ncaps_arg <= 0 else min(ncaps_arg, ncaps)
            for k in range(npoints):
                conds = []
                onb = []
                for i in range(nuse):
                    used = z3.Extract(i, i, use.v) == 1
                    conds.append(z3.Implies(used, in_cap_spec(xs[i], cms[i], pts[k])))
                    onb.append(z3.And(used, zt(cms[i]) < 0, 1 - dot(xs[i], pts[k]) == -zt(cms[i])))
                spec = z3.And(conds) if conds else z3.BoolVal(True)
                if radec and onb:
                    # RA/Dec counterexamples cannot be replayed (sin/cos are opaque): the boundary case of a
                    # cm < 0 cap is covered by the Cartesian obligations, assume it away here
                    ctx.assume(z3.Not(z3.Or(onb)))
                boundary = bool(B(z3.Or(onb))) if onb else False
                lab = 'is_in_polygon: inside <=> inside every cap selected by use_caps (first n caps only when ncaps is given)'
                if boundary:
                    lab += ' [point exactly on the boundary of a cm < 0 cap]'
                ctx.require(spec == z3.BoolVal(bool(res[k])), lab, dict(d, k=k))
        finally:
            _uninstall()
    return Obligation('is_in_polygon caps=%d points=%d radec=%d ncaps_arg=%d' % (ncaps, npoints, radec, ncaps_arg), fn,
                      bounds='%d caps, %d points, every use-mask' % (ncaps, npoints), solver_timeout_ms=120000, max_paths=100000, max_seconds=1700)


def ob_window(capcounts, npoints):
    def fn(ctx):
        from pydl.pydlutils.mangle import ManglePolygon, PolygonList, is_in_window
        _install(ctx)
        try:
            polys = []
            specs = []
            pts = [unit(ctx, 'p%d_' % k) for k in range(npoints)]
            allx = []
            d = {'fn': 'window', 'capcounts': list(capcounts), 'npoints': npoints}
            ctx.detail = d
            for pi_, nc in enumerate(capcounts):
                if nc == 0:
                    polys.append(ManglePolygon())
                    specs.append(([], []))
                else:
                    xs, cms = _caps(ctx, nc, 'q%d' % pi_)
                    allx += xs
                    polys.append(ManglePolygon(x=symnp.rarray(xs), cm=symnp.rarray(cms)))
                    specs.append((xs, cms))
            _lemmas(ctx, allx, pts)
            inside, idx = is_in_window(PolygonList(polys), symnp.rarray(pts))
            for k in range(npoints):
                memb = [z3.And([in_cap_spec(x, cm, pts[k]) for x, cm in zip(xs, cms)] + [z3.BoolVal(True)]) for xs, cms in specs]
                onb = [z3.And(zt(cm) < 0, 1 - dot(x, pts[k]) == -zt(cm)) for xs, cms in specs for x, cm in zip(xs, cms)]
                boundary = bool(B(z3.Or(onb))) if onb else False
                got = int(idx[k])
                lab = 'is_in_window: index of the first polygon in list order that contains the point (-1 / False if none)'
                if boundary:
                    lab += ' [point exactly on the boundary of a cm < 0 cap]'
                if got == -1:
                    ctx.require(z3.And([z3.Not(m) for m in memb]), lab, dict(d, k=k, got=got))
                else:
                    ctx.require(z3.And([z3.Not(m) for m in memb[:got]] + [memb[got]]), lab, dict(d, k=k, got=got))
                ctx.require(bool(inside[k]) == (got >= 0), 'is_in_window: flag <=> index >= 0', dict(d, k=k))
        finally:
            _uninstall()
    return Obligation('is_in_window polygons=%s points=%d' % (list(capcounts), npoints), fn, bounds='polygons with %s caps' % (list(capcounts),),
                      solver_timeout_ms=120000, max_paths=100000, max_seconds=1700)


def ob_use_caps(ncaps, index_list, add):
    def fn(ctx):
        from pydl.pydlutils.mangle import ManglePolygon, set_use_caps
        xs, cms = _caps(ctx, ncaps, unit_norm=False)      # set_use_caps never looks at the norm
        d = {'fn': 'use_caps', 'ncaps': ncaps, 'index_list': list(index_list), 'add': add}
        ctx.detail = d
        start = 0b101 & ((1 << ncaps) - 1)
        poly = ManglePolygon(x=symnp.rarray(xs), cm=symnp.rarray(cms), use_caps=start)
        tol = Fraction(1, 2)        # the tolerance is a parameter: any value exercises the same logic
        got = set_use_caps(poly, list(index_list), add=add, tol=R(tol))
        got = int(got)
        sel = set(index_list) | ({i for i in range(ncaps) if (start >> i) & 1} if add else set())

        def same(i, j):
            return z3.And([zt(xs[i][k]) == zt(xs[j][k]) for k in range(3)] + [zt(cms[i]) == zt(cms[j])])

        def near(i, j):
            d2 = z3.Sum([(zt(xs[i][k]) - zt(xs[j][k])) * (zt(xs[i][k]) - zt(xs[j][k])) for k in range(3)])
            dc = zt(cms[i]) - zt(cms[j])
            return z3.And(d2 < z3.RealVal(str(tol * tol)), dc < z3.RealVal(str(tol)), -dc < z3.RealVal(str(tol)))
        # what the path decided about near-coincidence (the code's notion of a duplicate, within tol)
        for j in range(ncaps):
            bit = bool((got >> j) & 1)
            if j not in sel:
                ctx.require(not bit, 'set_use_caps: only listed caps are selected', dict(d, j=j, got=got))
                continue
            earlier = [i for i in sorted(sel) if i < j]
            exact_dup = z3.Or([same(i, j) for i in earlier] + [z3.BoolVal(False)])
            near_dup = z3.Or([near(i, j) for i in earlier] + [z3.BoolVal(False)])
            # exact duplicates of an earlier selected cap must be dropped; caps that are not even near-duplicates must be kept
            ctx.require(z3.Implies(exact_dup, z3.BoolVal(not bit)), 'set_use_caps: a later duplicate of a selected cap is dropped', dict(d, j=j, got=got))
            # "identical except for the sign of cm" also counts as a double (docstring of allow_neg_doubles)
            negdouble = z3.Or([z3.And(z3.Sum([(zt(xs[i][k]) - zt(xs[j][k])) * (zt(xs[i][k]) - zt(xs[j][k])) for k in range(3)]) < z3.RealVal(str(tol * tol)),
                                      zt(cms[i]) + zt(cms[j]) < z3.RealVal(str(tol)), -(zt(cms[i]) + zt(cms[j])) < z3.RealVal(str(tol)))
                               for i in earlier] + [z3.BoolVal(False)])
            lab = 'set_use_caps: a listed cap that duplicates no earlier selected cap stays selected'
            ctx.require(z3.Implies(z3.Not(z3.Or(near_dup, negdouble)), z3.BoolVal(bit)), lab, dict(d, j=j, got=got))
        ctx.require(got >> ncaps == 0, 'set_use_caps: no bit beyond the caps', dict(d, got=got))
    return Obligation('set_use_caps ncaps=%d list=%s add=%d' % (ncaps, list(index_list), add), fn,
                      bounds='%d symbolic caps, index list %s' % (ncaps, list(index_list)), max_paths=50000, expect_symbolic=False)


def obligations(tier, seed):
    q = tier == 'quick'
    obs = [ob_cap(False), ob_cap(True)]
    obs.append(ob_polygon(0, 1, False, 0))
    obs.append(ob_polygon(1, 1, False, 0))
    obs.append(ob_polygon(2, 1, False, 0))
    obs.append(ob_polygon(2, 1, False, 1))
    obs.append(ob_polygon(1, 1, True, 0))
    obs.append(ob_polygon(2, 1, False, 3))
    if not q:
        obs.append(ob_polygon(2, 2, False, 1))
        obs.append(ob_polygon(3, 1, False, 0))
        obs.append(ob_polygon(3, 2, False, 2))
        obs.append(ob_polygon(2, 2, True, 0))
    obs.append(ob_window((1, 1), 1))
    obs.append(ob_window((1, 0), 1))
    obs.append(ob_window((0, 1), 1))
    if not q:
        obs.append(ob_window((2, 1), 1))
        obs.append(ob_window((1, 1, 1), 1))
        obs.append(ob_window((1, 2), 2))
        obs.append(ob_window((2, 1, 0), 1))
    lists = [(0,), (1,), (0, 1), (1, 0), (0, 0), (2, 0)] if q else \
        [l for n in (1, 2, 3) for l in itertools.product(range(3), repeat=n)]
    for l in lists:
        nc = 3
        obs.append(ob_use_caps(nc, l, False))
    obs.append(ob_use_caps(3, (1,), True))
    obs.append(ob_use_caps(2, (1, 0), False))
    return obs


# ------------------------------------------------------------------ replay
def _f(v):
    if isinstance(v, dict):
        return int(v['num']) / int(v['den'])
    return float(v)


def _vec(inp, name):
    return np.array([_f(inp.get('%s%d' % (name, k), 0)) for k in range(3)])


def _in_cap_float(x, cm, p):
    d = 1.0 - float(np.dot(x, p))
    return d <= cm if cm >= 0 else d > -cm


def replay(rec):
    import warnings
    warnings.simplefilter('ignore')
    from pydl.pydlutils.mangle import ManglePolygon, PolygonList, is_in_cap, is_in_polygon, is_in_window, set_use_caps
    d = rec['detail'] or {}
    inp = rec['inputs'] or {}
    fn = d.get('fn')
    # only exactly representable counterexamples can be replayed in floats (unit-norm constraint, boundary equalities)
    if fn == 'cap':
        x = _vec(inp, 'x0_')
        cm = _f(inp.get('cm0', 1))
        p = x if d['at_centre'] else _vec(inp, 'p')
        if abs(np.dot(x, x) - 1) > 1e-12 or abs(np.dot(p, p) - 1) > 1e-12:
            return False
        got = bool(is_in_cap(x, cm, p.reshape(1, 3))[0])
        return got != _in_cap_float(x, cm, p)
    if fn == 'polygon':
        ncaps, npoints = d['ncaps'], d['npoints']
        if d['radec']:
            return False
        xs = [_vec(inp, 'x%d_' % i) for i in range(ncaps)]
        cms = [_f(inp.get('cm%d' % i, 1)) for i in range(ncaps)]
        use = int(inp.get('use_caps', 0))
        pts = [_vec(inp, 'p%d_' % k) for k in range(npoints)]
        if any(abs(np.dot(v, v) - 1) > 1e-12 for v in xs + pts):
            return False
        poly = ManglePolygon(x=np.array(xs), cm=np.array(cms), use_caps=use) if ncaps else ManglePolygon()
        res = is_in_polygon(poly, np.array(pts), ncaps=d['ncaps_arg'])
        nuse = ncaps if d['ncaps_arg'] <= 0 else min(d['ncaps_arg'], ncaps)
        for k in range(npoints):
            exp = all(_in_cap_float(xs[i], cms[i], pts[k]) for i in range(nuse) if (use >> i) & 1)
            if bool(res[k]) != exp:
                return True
        return False
    if fn == 'window':
        polys = []
        specs = []
        pts = [_vec(inp, 'p%d_' % k) for k in range(d['npoints'])]
        for pi_, nc in enumerate(d['capcounts']):
            if nc == 0:
                polys.append(ManglePolygon())
                specs.append(([], []))
            else:
                xs = [_vec(inp, 'q%dx%d_' % (pi_, i)) for i in range(nc)]
                cms = [_f(inp.get('q%dcm%d' % (pi_, i), 1)) for i in range(nc)]
                if any(abs(np.dot(v, v) - 1) > 1e-12 for v in xs):
                    return False
                polys.append(ManglePolygon(x=np.array(xs), cm=np.array(cms)))
                specs.append((xs, cms))
        if any(abs(np.dot(v, v) - 1) > 1e-12 for v in pts):
            return False
        inside, idx = is_in_window(PolygonList(polys), np.array(pts))
        for k, p in enumerate(pts):
            exp = -1
            for j, (xs, cms) in enumerate(specs):
                if all(_in_cap_float(x, cm, p) for x, cm in zip(xs, cms)):
                    exp = j
                    break
            if int(idx[k]) != exp or bool(inside[k]) != (exp >= 0):
                return True
        return False
    if fn == 'use_caps':
        ncaps = d['ncaps']
        xs = np.array([_vec(inp, 'x%d_' % i) for i in range(ncaps)])
        cms = np.array([_f(inp.get('cm%d' % i, 1)) for i in range(ncaps)])
        start = 0b101 & ((1 << ncaps) - 1)
        poly = ManglePolygon(x=xs, cm=cms, use_caps=start)
        got = int(set_use_caps(poly, list(d['index_list']), add=d['add'], tol=0.5))   # exception = reproduced (handled by caller)
        sel = set(d['index_list']) | ({i for i in range(ncaps) if (start >> i) & 1} if d['add'] else set())
        tol = 0.5
        for j in range(ncaps):
            bit = bool((got >> j) & 1)
            if j not in sel:
                if bit:
                    return True
                continue
            earlier = [i for i in sorted(sel) if i < j]
            exact = any((xs[i] == xs[j]).all() and cms[i] == cms[j] for i in earlier)
            near = any(((xs[i] - xs[j]) ** 2).sum() < tol * tol and (abs(cms[i] - cms[j]) < tol or abs(cms[i] + cms[j]) < tol) for i in earlier)
            if exact and bit:
                return True
            if not near and not bit:
                return True
        return got >> ncaps != 0
    return False
