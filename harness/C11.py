"""C11 - combine1fiber resamples spectra: conservative inverse variance (partial: the spline fit is
replaced by an arbitrary fit outcome; finiteness and fit accuracy are outside the exact-real model)."""
from fractions import Fraction
import numpy as np
import z3

from pathsym import core, symnp
from pathsym.core import R, B, zt
from .common import Obligation

PID = 'C11'

META = {
    'functions_encoded': ['pydl.pydlspec2d.spec2d.combine1fiber (1-D, and stacks of two exposures)', 'pydl.pydlspec2d.spec2d.aesthetics', 'pydl.pydlutils.image.djs_maskinterp',
                          'pydl.smooth.smooth', 'pydl.pydlspec2d.spec1d.preprocess_spectra (shift arithmetic)'],
    'stubs': ['iterfit -> ARBITRARY fit outcome: fresh symbolic flux for every evaluated pixel, arbitrary (symbolic) evaluation mask, '
              'arbitrary (symbolic) rejection mask, arbitrary non-zero (symbolic) coefficients', 'numpy.interp by its definition; maskbits cache preset (SPPIXMASK)',
              'stacks: djs_median (running median over 101 pixels of the variances) -> arbitrary positive value per pixel; fit outcome fixed to "accepts everything"',
              'preprocess_spectra: combine1fiber replaced by a recorder; log10(1+z) evaluated in IEEE double on a concrete z'],
    'assumptions': ['input log-wavelengths increasing; input and output grids are concrete exact rationals; flux and inverse variance symbolic (ivar >= 0)',
                    'floats are exact reals'],
    'outside_bounds': 'the spline fit itself (C08-C10); "finite" (no NaN/inf in exact reals); identity / constant-spectrum accuracy (a statement about the fit); '
                      'stacks: more than two exposures, rejection by the fit, the values (as opposed to the zero pattern) of the combined inverse variance',
}

SPPIXMASK = {'NOPLUG': 0, 'BADSKYCHI': 23, 'NODATA': 24, 'COMBINEREJ': 25, 'REDMONSTER': 28}


def F(a, b=1):
    return Fraction(a, b)


GRIDS = {
    # name: (input grid, output grid)   log-wavelengths as exact rationals (spacing 1e-4)
    'same5': ([F(35000 + i, 10000) for i in range(5)], [F(35000 + i, 10000) for i in range(5)]),
    'shift6': ([F(35000 + i, 10000) for i in range(6)], [F(350005 + 10 * i, 100000) for i in range(-1, 6)]),
    'wider6': ([F(35000 + i, 10000) for i in range(6)], [F(35000 + i, 10000) for i in range(-2, 8)]),
    'narrow7': ([F(35000 + i, 10000) for i in range(7)], [F(35000 + i, 10000) for i in range(2, 6)]),
    'coarse7': ([F(35000 + i, 10000) for i in range(7)], [F(35000 + 2 * i, 10000) for i in range(0, 4)]),
}


class FitStub(object):
    """replacement of iterfit: arbitrary outcome (every quantity a fresh solver variable)."""

    def __init__(self, ctx, fixed_masks=None, scale=None):
        self.ctx = ctx
        self.calls = []
        self.values = {}
        self.fixed = fixed_masks
        self.scale = scale          # a least-squares fit is linear in the data: data scaled by c -> curve and coefficients scaled by c

    def __call__(self, x, y, invvar=None, **kw):
        n = len(x)
        k = len(self.calls)
        bmask = np.array([True if self.fixed else bool(self.ctx.bool('bmask%d_%d' % (k, i))) for i in range(n)], dtype=bool)
        stub = self
        # the coefficients of the fitted spline: arbitrary, not all zero (a fit that returns only zeros is the
        # code's own 'failed' signal)
        cf = self.ctx.real('coeff%d' % k)
        self.ctx.add(zt(cf) != 0)

        sc = self.scale

        class SSet(object):
            coeff = symnp.rarray([cf if sc is None else cf * sc])

            def value(self_inner, xx):
                vals = np.empty(len(xx), dtype=object)
                m = np.empty(len(xx), dtype=bool)
                for i, xv in enumerate(xx.tolist()):
                    key = str(R.lift(xv).v)
                    if key not in stub.values:
                        stub.values[key] = (stub.ctx.real('spl_' + key.replace('/', '_')),
                                            True if stub.fixed else bool(stub.ctx.bool('vmask_' + key.replace('/', '_'))))
                    vals[i], m[i] = stub.values[key]
                    if sc is not None:
                        vals[i] = vals[i] * sc
                return vals, m
        self.calls.append((x.tolist(), bmask.tolist()))
        return SSet(), bmask


def _run(ctx, grid, fl, iv, aest, scale=None, fix_fit=False, fit_scale=None):
    import pydl.pydlspec2d.spec2d as spec2d
    import pydl.pydlutils.sdss as sdss
    sdss.maskbits = {'SPPIXMASK': dict(SPPIXMASK)}
    inl, newl = GRIDS[grid]
    stub = FitStub(ctx, fixed_masks=fix_fit, scale=fit_scale)
    saved = spec2d.iterfit
    spec2d.iterfit = stub
    try:
        kw = {'aesthetics': aest} if aest else {}
        flux, ivar = spec2d.combine1fiber(symnp.rarray(inl), symnp.rarray(fl), symnp.rarray(newl),
                                          objivar=None if iv is None else symnp._build_object(list(iv)), **kw)
    finally:
        spec2d.iterfit = saved
    return flux, ivar, stub


def ob_combine(grid, aest, with_ivar=True, free='both'):
    def fn(ctx):
        inl, newl = GRIDS[grid]
        n, m = len(inl), len(newl)
        fl = ctx.reals('f', n)
        iv = None
        if with_ivar:
            iv = ctx.reals('iv', n)
            for v in iv:
                ctx.add(zt(v) >= 0)
        d = {'fn': 'combine', 'grid': grid, 'aest': aest, 'with_ivar': with_ivar, 'free': free}
        ctx.detail = d
        if with_ivar and free == 'fit':
            for v in iv:
                ctx.add(zt(v) >= 1)
        good_in = [bool(v > 0) for v in iv] if with_ivar else [True] * n
        flux, ivar, stub = _run(ctx, grid, fl, iv, aest, fix_fit=(free == 'ivzero'))
        ctx.require(flux.shape == (m,) and ivar.shape == (m,), 'outputs have the length of the new grid', d)
        # accepted input pixels: positive ivar and not rejected by the (arbitrary) fit
        accepted = list(good_in)
        for xs, bm in stub.calls:
            for xv, b in zip(xs, bm):
                i = inl.index(R.lift(xv).v)
                accepted[i] = accepted[i] and b
        fitted = set()
        for xs, bm in stub.calls:
            for xv in xs:
                fitted.add(inl.index(R.lift(xv).v))
        for i in range(n):
            if i not in fitted:
                accepted[i] = False
        d = dict(d, good_in=good_in, accepted=accepted)
        for j in range(m):
            o = R.lift(ivar[j])
            ctx.require(zt(o) >= 0, 'output inverse variance >= 0', dict(d, j=j))
            # between two adjacent accepted input pixels?
            between = False
            bracket = None
            for i in range(n - 1):
                if inl[i] <= newl[j] <= inl[i + 1]:
                    if accepted[i] and accepted[i + 1]:
                        between = True
                    bracket = (i, i + 1)
            if newl[j] in inl and accepted[inl.index(newl[j])]:
                # an output pixel that coincides with a good input pixel keeps its weight (degenerate interval):
                # the weaker reading of "between two adjacent good pixels", so that same-grid resampling is the identity
                between = True
            if not between:
                ctx.require(zt(o) == 0, 'inverse variance is 0 for an output pixel that does not lie between two adjacent good input pixels', dict(d, j=j))
            if with_ivar and bracket is not None:
                i0, i1 = bracket
                t = (newl[j] - inl[i0]) / (inl[i1] - inl[i0])
                lin = zt(iv[i0]) * z3.RealVal(str(1 - t)) + zt(iv[i1]) * z3.RealVal(str(t))
                mx = z3.If(zt(iv[i0]) >= zt(iv[i1]), zt(iv[i0]), zt(iv[i1]))
                ctx.require(z3.Or(zt(o) == 0, zt(o) == lin), 'non-zero output inverse variance = linear interpolation of the input one', dict(d, j=j))
                ctx.require(zt(o) <= mx, 'output inverse variance never above the local maximum of the input', dict(d, j=j))
            # aesthetics only touches pixels without weight
            key = str(newl[j])
            if key in stub.values:
                sv, vm = stub.values[key]
                ctx.require(z3.Or(zt(o) == 0, zt(R.lift(flux[j])) == zt(sv)), 'flux of a weighted output pixel is the fitted curve (aesthetics only where ivar is 0)', dict(d, j=j))
        if not any(good_in):
            for j in range(m):
                ctx.require(z3.And(zt(R.lift(ivar[j])) == 0, zt(R.lift(flux[j])) == 0), 'no good input pixel: zero flux and inverse variance', dict(d, j=j))
    # with an aesthetics method the claim 'finite' is checked too: a path on which the real code would produce
    # NaN / inf (mean of nothing, 0/0) is a violation, not a cut
    return Obligation('combine1fiber %s aest=%s ivar=%d free=%s' % (grid, aest, with_ivar, free), fn,
                      bounds='grid %s, every flux / inverse variance / fit outcome' % grid, max_paths=400000, max_seconds=1700,
                      nonfinite='violation' if aest else 'cut')


GRIDS2D = {
    # two exposures with different coverage (offset by whole pixels), common output grid
    'offset3': ([[F(35000 + i, 10000) for i in range(5)], [F(35003 + i, 10000) for i in range(5)]], [F(35000 + i, 10000) for i in range(8)]),
    'offset3-shifted': ([[F(35000 + i, 10000) for i in range(5)], [F(35003 + i, 10000) for i in range(5)]],
                        [F(350003 + 10 * i, 100000) for i in range(8)]),
    'offset4': ([[F(35000 + i, 10000) for i in range(4)], [F(35004 + i, 10000) for i in range(4)]], [F(35000 + i, 10000) for i in range(8)]),
}


def ob_combine2d(grid):
    """a stack of two exposures: the fit accepts every pixel it is given (fit outcome fixed), the zero pattern
    of the second exposure is symbolic, the variance smoothing (running median over 101 pixels) is an
    arbitrary positive value per pixel."""
    def fn(ctx):
        import pydl.pydlspec2d.spec2d as spec2d
        import pydl.pydlutils.sdss as sdss
        sdss.maskbits = {'SPPIXMASK': dict(SPPIXMASK)}
        inl, newl = GRIDS2D[grid]
        ne, n, m = len(inl), len(inl[0]), len(newl)
        fl = [[ctx.real('f%d_%d' % (e, i)) for i in range(n)] for e in range(ne)]
        iv = [[ctx.real('iv%d_%d' % (e, i)) for i in range(n)] for e in range(ne)]
        for e in range(ne):
            for v in iv[e]:
                ctx.add(zt(v) >= (1 if e == 0 else 0))
        d = {'fn': 'combine2d', 'grid': grid}
        ctx.detail = d
        good_in = [[bool(v > 0) for v in row] for row in iv]
        stub = FitStub(ctx, fixed_masks=True)
        nmed = [0]

        def median_stub(x, width=None, **kw):
            out = np.empty(len(x), dtype=object)
            for i in range(len(x)):
                v = ctx.real('smoothed%d_%d' % (nmed[0], i))
                ctx.add(zt(v) > 0)
                out[i] = v
            nmed[0] += 1
            return out
        saved = (spec2d.iterfit, spec2d.djs_median)
        spec2d.iterfit, spec2d.djs_median = stub, median_stub
        try:
            flux, ivar = spec2d.combine1fiber(symnp.rarray(inl), symnp.rarray(fl), symnp.rarray(newl), objivar=symnp.rarray(iv))
        finally:
            spec2d.iterfit, spec2d.djs_median = saved
        ctx.require(flux.shape == (m,) and ivar.shape == (m,), 'outputs have the length of the new grid', d)
        fitted_vals = set()
        for xs, bm in stub.calls:
            for xv in xs:
                fitted_vals.add(R.lift(xv).v)
        accepted = [[good_in[e][i] and inl[e][i] in fitted_vals for i in range(n)] for e in range(ne)]
        d = dict(d, good_in=good_in, accepted=accepted)
        for j in range(m):
            o = R.lift(ivar[j])
            ctx.require(zt(o) >= 0, 'output inverse variance >= 0', dict(d, j=j))
            between = False
            for e in range(ne):
                for i in range(n - 1):
                    if inl[e][i] <= newl[j] <= inl[e][i + 1] and accepted[e][i] and accepted[e][i + 1]:
                        between = True
                if newl[j] in inl[e] and accepted[e][inl[e].index(newl[j])]:
                    between = True
            if not between:
                ctx.require(zt(o) == 0, 'stack: inverse variance is 0 for an output pixel that does not lie between two adjacent good pixels of any exposure',
                            dict(d, j=j))
    return Obligation('combine1fiber stack %s' % grid, fn, bounds='two exposures of grid %s, every flux, every inverse variance (first exposure > 0, '
                      'second >= 0), every smoothed variance, fit outcome fixed to "all accepted"' % grid, max_paths=400000, max_seconds=1700)


SCALES = [Fraction(1, 1000), Fraction(30)]


def ob_scaling(grid):
    def fn(ctx):
        inl, newl = GRIDS[grid]
        n, m = len(inl), len(newl)
        fl = ctx.reals('f', n)
        iv = ctx.reals('iv', n)
        for v in iv:
            ctx.add(zt(v) >= 1)             # well above the float32-eps threshold the code uses for "no weight"
        k = ctx.real('k')
        ctx.add(zt(k) >= z3.RealVal('1/1000'))
        d = {'fn': 'scaling', 'grid': grid}
        ctx.detail = d
        f1, i1, s1 = _run(ctx, grid, fl, iv, None)
        ctx.scaling_pass = True
        f2, i2, s2 = _run(ctx, grid, fl, [v * k for v in iv], None)
        for j in range(m):
            ctx.require(zt(R.lift(i2[j])) == zt(R.lift(i1[j])) * zt(k), 'scaling the input inverse variance by 1/c^2 scales the output likewise (same fit outcome)', dict(d, j=j))
        # flux scaled by c together with inverse variance scaled by 1/c^2 (c chosen by the solver); the fit outcome scales with the data
        c = SCALES[int(ctx.int('c_choice', 0, len(SCALES) - 1))]
        d = dict(d, c=str(c))
        f3, i3, s3 = _run(ctx, grid, [v * R(c) for v in fl], [v * R(1 / (c * c)) for v in iv], None, fit_scale=R(c))
        for j in range(m):
            ctx.require(zt(R.lift(f3[j])) == zt(R.lift(f1[j])) * zt(R(c)), 'scaling flux by c and inverse variance by 1/c^2 scales the output flux by c', dict(d, j=j))
            ctx.require(zt(R.lift(i3[j])) * zt(R(c * c)) == zt(R.lift(i1[j])), 'scaling flux by c and inverse variance by 1/c^2 scales the output inverse variance by 1/c^2', dict(d, j=j))
    return Obligation('combine1fiber ivar scaling %s' % grid, fn, bounds='grid %s, all weights positive' % grid, max_paths=100000,
                      solver_timeout_ms=120000, max_seconds=1700)


def ob_preprocess(nobj):
    """de-redshifting moves a feature at L to L - log10(1+z): the grid handed to combine1fiber"""
    def fn(ctx):
        import pydl.pydlspec2d.spec1d as spec1d
        from astropy import log as _alog
        _alog.setLevel('ERROR')
        npix = 5
        zs = [0.1 * (o + 1) for o in range(nobj)]
        fl = [[ctx.real('f%d_%d' % (o, i)) for i in range(npix)] for o in range(nobj)]
        iv = [[ctx.real('iv%d_%d' % (o, i)) for i in range(npix)] for o in range(nobj)]
        d = {'fn': 'preprocess', 'nobj': nobj}
        ctx.detail = d
        loglam = np.array([3.5 + 1e-4 * i for i in range(npix)])
        newloglam = np.array([3.45 + 1e-4 * i for i in range(6)])
        seen = []

        def recorder(inloglam, objflux, newll, objivar=None, **kw):
            seen.append((np.asarray(inloglam, dtype=float).copy(), objflux, objivar, newll))
            return symnp.zeros(len(newll)), symnp.zeros(len(newll))
        saved = spec1d.__dict__.get('combine1fiber')
        import pydl.pydlspec2d.spec2d as spec2d
        saved2 = spec2d.combine1fiber
        spec2d.combine1fiber = recorder
        if saved is not None:
            spec1d.combine1fiber = recorder
        try:
            spec1d.preprocess_spectra(symnp.rarray(fl), symnp.rarray(iv), loglam=loglam, zfit=np.array(zs), newloglam=newloglam)
        finally:
            spec2d.combine1fiber = saved2
            if saved is not None:
                spec1d.combine1fiber = saved
        ctx.require(len(seen) == nobj, 'preprocess_spectra resamples every object once', dict(d, calls=len(seen)))
        for o, (il, ofl, oiv, nl) in enumerate(seen):
            exp = loglam - np.log10(1 + zs[o])
            ctx.require(bool(np.abs(il - exp).max() < 1e-12), 'de-redshifting moves log-wavelength L to L - log10(1+z)', dict(d, o=o))
            for i in range(npix):
                ctx.require(zt(R.lift(ofl[i])) == zt(fl[o][i]), 'each object is resampled from its own flux row', dict(d, o=o, i=i))
    return Obligation('preprocess_spectra nobj=%d' % nobj, fn, bounds='%d objects' % nobj, mode='mixed', expect_symbolic=True)


def obligations(tier, seed):
    q = tier == 'quick'
    obs = []
    if not q:
        obs.append(ob_combine('same5', None))
    for g in (['same5', 'shift6'] if q else ['shift6', 'wider6', 'narrow7', 'coarse7']):
        obs.append(ob_combine(g, None, free='ivzero'))
        obs.append(ob_combine(g, None, free='fit'))
    obs.append(ob_combine('wider6', 'mean', free='ivzero'))
    obs.append(ob_combine2d('offset3-shifted'))
    if not q:
        obs.append(ob_combine2d('offset3'))
        obs.append(ob_combine2d('offset4'))
    obs.append(ob_combine('same5', 'nothing', with_ivar=False))
    if not q:
        obs.append(ob_combine('shift6', None))
        obs.append(ob_combine('coarse7', 'mean', free='fit'))
        obs.append(ob_combine('shift6', 'nothing', free='ivzero'))
        obs.append(ob_combine('wider6', 'noconst', with_ivar=False))
    obs.append(ob_scaling('same5'))
    if not q:
        obs.append(ob_scaling('shift6'))
    obs.append(ob_preprocess(2))
    return obs


# ------------------------------------------------------------------ replay
def _f(v):
    if isinstance(v, dict):
        return int(v['num']) / int(v['den'])
    return float(v)


def replay(rec):
    import warnings
    warnings.simplefilter('ignore')
    import pydl.pydlspec2d.spec2d as spec2d
    import pydl.pydlutils.sdss as sdss
    sdss.maskbits = {'SPPIXMASK': dict(SPPIXMASK)}
    d = rec['detail'] or {}
    inp = rec['inputs'] or {}
    if d.get('fn') == 'combine2d':
        inl, newl = GRIDS2D[d['grid']]
        ne, n, m = len(inl), len(inl[0]), len(newl)
        x = np.array([[float(v) for v in row] for row in inl])
        xn = np.array([float(v) for v in newl])
        fl = np.array([[_f(inp.get('f%d_%d' % (e, i), 1)) for i in range(n)] for e in range(ne)])
        iv = np.array([[_f(inp.get('iv%d_%d' % (e, i), 1)) for i in range(n)] for e in range(ne)])
        calls = []
        nmed = [0]

        def fit_stub(xx, yy, invvar=None, **kw):
            class S(object):
                coeff = np.array([_f(inp.get('coeff%d' % len(calls), 1.0))])

                def value(self, q):
                    return np.array([_f(inp.get('spl_' + str(newl[int(np.argmin(np.abs(xn - qv)))]).replace('/', '_'), 0.0)) for qv in q]), \
                        np.ones(len(q), dtype=bool)
            calls.append(list(xx))
            return S(), np.ones(len(xx), dtype=bool)

        def median_stub(v, width=None, **kw):
            out = np.array([_f(inp.get('smoothed%d_%d' % (nmed[0], i), 1)) for i in range(len(v))])
            nmed[0] += 1
            return out
        saved = (spec2d.iterfit, spec2d.djs_median)
        spec2d.iterfit, spec2d.djs_median = fit_stub, median_stub
        try:
            flux, ivar = spec2d.combine1fiber(x, fl, xn, objivar=iv.copy())
        finally:
            spec2d.iterfit, spec2d.djs_median = saved
        if flux.shape != (m,) or ivar.shape != (m,) or (ivar < 0).any():
            return True
        fitted = [v for c in calls for v in c]
        acc = [[iv[e][i] > 0 and any(abs(x[e][i] - v) < 1e-12 for v in fitted) for i in range(n)] for e in range(ne)]
        for j in range(m):
            between = any((inl[e][i] <= newl[j] <= inl[e][i + 1] and acc[e][i] and acc[e][i + 1]) for e in range(ne) for i in range(n - 1)) or \
                any(newl[j] in inl[e] and acc[e][inl[e].index(newl[j])] for e in range(ne))
            if not between and abs(ivar[j]) > 1e-9:
                return True
        return False
    if d.get('fn') == 'preprocess':
        import pydl.pydlspec2d.spec1d as spec1d
        nobj, npix = d['nobj'], 5
        zs = [0.1 * (o + 1) for o in range(nobj)]
        fl = np.array([[_f(inp.get('f%d_%d' % (o, i), 1)) for i in range(npix)] for o in range(nobj)])
        iv = np.array([[_f(inp.get('iv%d_%d' % (o, i), 1)) for i in range(npix)] for o in range(nobj)])
        loglam = np.array([3.5 + 1e-4 * i for i in range(npix)])
        newloglam = np.array([3.45 + 1e-4 * i for i in range(6)])
        seen = []

        def recorder(inloglam, objflux, newll, objivar=None, **kw):
            seen.append((np.asarray(inloglam, dtype=float).copy(), np.asarray(objflux, dtype=float).copy()))
            return np.zeros(len(newll)), np.zeros(len(newll))
        saved2 = spec2d.combine1fiber
        saved1 = spec1d.__dict__.get('combine1fiber')
        spec2d.combine1fiber = recorder
        if saved1 is not None:
            spec1d.combine1fiber = recorder
        try:
            spec1d.preprocess_spectra(fl.copy(), iv.copy(), loglam=loglam.copy(), zfit=np.array(zs), newloglam=newloglam)
        finally:
            spec2d.combine1fiber = saved2
            if saved1 is not None:
                spec1d.combine1fiber = saved1
        if len(seen) != nobj:
            return True
        for o, (il, ofl) in enumerate(seen):
            if np.abs(il - (loglam - np.log10(1 + zs[o]))).max() >= 1e-12 or np.abs(ofl - fl[o]).max() > 0:
                return True
        return False
    if d.get('fn') not in ('combine', 'scaling'):
        return False
    inl, newl = GRIDS[d['grid']]
    n, m = len(inl), len(newl)
    x = np.array([float(v) for v in inl])
    xn = np.array([float(v) for v in newl])
    fl = np.array([_f(inp.get('f%d' % i, 1)) for i in range(n)])
    with_ivar = d.get('with_ivar', True)
    iv = np.array([_f(inp.get('iv%d' % i, 1)) for i in range(n)]) if with_ivar else None
    calls = []
    values = {}
    fit_scale = [1.0]

    def stub(xx, yy, invvar=None, **kw):
        k = len(calls)
        bm = np.array([bool(inp.get('bmask%d_%d' % (k, i), True)) for i in range(len(xx))])
        sc = fit_scale[0]

        class S(object):
            coeff = np.array([_f(inp.get('coeff%d' % k, 1.0)) * sc])

            def value(self, q):
                vals, mm = [], []
                for qv in q:
                    j = int(np.argmin(np.abs(xn - qv)))
                    key = str(newl[j]).replace('/', '_')
                    vals.append(_f(inp.get('spl_' + key, 0.0)) * sc)
                    mm.append(bool(inp.get('vmask_' + key, True)))
                    values[j] = vals[-1]
                return np.array(vals), np.array(mm)
        calls.append((list(xx), list(bm)))
        return S(), bm
    saved = spec2d.iterfit
    spec2d.iterfit = stub
    try:
        kw = {'aesthetics': d['aest']} if d.get('aest') else {}
        flux, ivar = spec2d.combine1fiber(x, fl, xn, objivar=None if iv is None else iv.copy(), **kw)
    finally:
        spec2d.iterfit = saved
    if d['fn'] == 'scaling':
        kk = _f(inp.get('k', 1))
        calls[:] = []
        spec2d.iterfit = stub
        try:
            flux2, ivar2 = spec2d.combine1fiber(x, fl, xn, objivar=iv * kk)
        finally:
            spec2d.iterfit = saved
        if np.abs(ivar2 - ivar * kk).max() > 1e-9 * max(1.0, np.abs(ivar * kk).max()):
            return True
        if 'c' in d:
            c = float(Fraction(d['c']))
            calls[:] = []
            fit_scale[0] = c
            spec2d.iterfit = stub
            try:
                flux3, ivar3 = spec2d.combine1fiber(x, fl * c, xn, objivar=iv / (c * c))
            finally:
                spec2d.iterfit = saved
            return bool(np.abs(flux3 - flux * c).max() > 1e-9 * max(1e-300, np.abs(flux * c).max())
                        or np.abs(ivar3 * c * c - ivar).max() > 1e-9 * max(1e-300, np.abs(ivar).max()))
        return False
    if flux.shape != (m,) or ivar.shape != (m,) or (ivar < 0).any():
        return True
    if not (np.isfinite(flux).all() and np.isfinite(ivar).all()):
        return True
    good = (iv > 0) if with_ivar else np.ones(n, dtype=bool)
    accepted = list(good)
    fitted = set()
    for xs, bm in calls:
        for xv, b in zip(xs, bm):
            i = int(np.argmin(np.abs(x - xv)))
            accepted[i] = accepted[i] and b
            fitted.add(i)
    accepted = [a and (i in fitted) for i, a in enumerate(accepted)]
    tol = 1e-9
    for j in range(m):
        between = any(inl[i] <= newl[j] <= inl[i + 1] and accepted[i] and accepted[i + 1] for i in range(n - 1)) or \
            (newl[j] in inl and accepted[inl.index(newl[j])])
        if not between and abs(ivar[j]) > tol:
            return True
        if with_ivar:
            for i in range(n - 1):
                if inl[i] <= newl[j] <= inl[i + 1]:
                    t = float((newl[j] - inl[i]) / (inl[i + 1] - inl[i]))
                    lin = iv[i] * (1 - t) + iv[i + 1] * t
                    if abs(ivar[j]) > tol and abs(ivar[j] - lin) > tol * max(1.0, abs(lin)):
                        return True
                    if ivar[j] > max(iv[i], iv[i + 1]) + tol:
                        return True
        if j in values and abs(ivar[j]) > tol and abs(flux[j] - values[j]) > tol * max(1.0, abs(values[j])):
            return True
    return False
