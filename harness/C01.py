"""C01 - yanny: tables and header pairs written to a file read back unchanged (partial: float
cells are concrete - their text round trip is C code)."""
import itertools
import numpy as np
import z3

from pathsym import core, symnp, sstr
from pathsym.core import R, B, Z, BV, zt
from pathsym.sstr import SStr, sym_chars
from .common import Obligation
from .yannylib import FS, install, uninstall, S, cell_eq, column_values, text_eq

PID = 'C01'

META = {
    'functions_encoded': ['pydl.pydlutils.yanny.write_ndarray_to_yanny', 'write_table_yanny', 'read_table_yanny', 'yanny.__init__', 'dtype_to_struct',
                          'write', 'protect', '_parse', 'get_token', 'trailing_comment', 'type/basetype/isarray/isenum/array_length/char_length/dtype/convert'],
    'stubs': ['in-memory file system (open / os.access / os.path.exists / os.remove)', 're -> pathsym.symre',
              'numpy record arrays / astropy Table -> record stand-in with a real numpy dtype (S<n> truncation rule)',
              'decimal rendering / parsing of integers: the engine\'s (sign and digit count forked, digits symbolic); the tokeniser in between is pydl\'s'],
    'assumptions': ['string cells: TAB + printable ASCII without the texts the statement excludes (double quote anywhere, leading {, } inside array '
                    'elements, backslash ending the last column, # in header values)', 'float cells are concrete values'],
    'outside_bounds': 'bit-identical float text round trip incl. NaN / inf / denormals (numpy repr and CPython float() are C code): NOT claimed; '
                      'astropy Table internals; more than 2-4 symbolic characters per document; 64-bit integers only in the thorough tier',
}


ENUM_NAMES = ('ETYPE', 'Status', 'quality_t')
HDR_KEYS = ('mjd', 'struct', 'enum', 'typedef', 'symbols', 'char', 'id', 'STRUCT')


def _rec(n, dtype):
    return symnp.SymRec(n, np.dtype(dtype))


def _set(rec, name, i, value):
    arr = rec._fields[name]
    arr[i] = np.bytes_(value) if isinstance(value, bytes) else value


class SymTable(symnp.SymRec):
    """astropy Table stand-in: a record stand-in with .meta"""
    pass


def make_strings(ctx, prefix, lengths, last_column, array_elem=False):
    """list of symbolic byte strings with the statement's exclusions"""
    out = []
    for k, ln in enumerate(lengths):
        ch = sym_chars(ctx, '%s%d' % (prefix, k), ln, exclude='"' + ('}' if array_elem else ''))
        if ch:
            ctx.add(ch[0] != ord('{'))
            if last_column:
                ctx.add(ch[-1] != ord('\\'))
        v = SStr.mk(ch, True)
        out.append(np.bytes_(v) if isinstance(v, bytes) else v)
    return out


def ob_strings(lengths, layout, nrows=None):
    """layout: 'scalar-last' (string column is last), 'scalar-mid', 'array', 'two-tables'"""
    def fn(ctx):
        import pydl.pydlutils.yanny as ymod
        fs = FS()
        saved = install(ymod, fs)
        try:
            d = {'fn': 'strings', 'lengths': list(lengths), 'layout': layout}
            ctx.detail = d
            n = len(lengths) if layout != 'array' else 1
            if layout == 'scalar-last':
                dt = [('id', 'i4'), ('x', 'f4'), ('name', 'S4')]
            elif layout == 'scalar-mid':
                dt = [('name', 'S4'), ('id', 'i2'), ('flag', 'S3')]
            elif layout == 'array':
                dt = [('id', 'i4'), ('tags', 'S4', (len(lengths),)), ('x', 'f8')]
            else:
                dt = [('id', 'i4'), ('name', 'S4')]
            rec = _rec(n, dt)
            strs = make_strings(ctx, 's', lengths, layout in ('scalar-last', 'two-tables'), array_elem=(layout == 'array'))
            for i in range(n):
                if 'id' in rec._fields:
                    _set(rec, 'id', i, BV(10 + i, rec.dtype.fields['id'][0]))
                if 'x' in rec._fields:
                    _set(rec, 'x', i, R(core._frac(1.5 + i)))
                if 'flag' in rec._fields:
                    _set(rec, 'flag', i, b'ok')
            if layout == 'array':
                for k, sv in enumerate(strs):
                    rec._fields['tags'][0, k] = sv
            else:
                for i, sv in enumerate(strs):
                    _set(rec, 'name', i, sv)
            tables = [rec]
            names = ['mystruct']
            if layout == 'two-tables':
                rec2 = _rec(1, [('n', 'i8'), ('w', 'S3')])
                _set(rec2, 'n', 0, BV(-7, 'i8'))
                _set(rec2, 'w', 0, b'z#z')
                tables.append(rec2)
                names.append('other')
            hv = sym_chars(ctx, 'h', 1, exclude='#')
            ctx.add(z3.And(hv[0] != 32, hv[0] != 9, hv[0] != 92))
            hdr = {'keyword': S('v', hv), 'num': 42}
            par = ymod.write_ndarray_to_yanny('/data/test.par', tables if len(tables) > 1 else tables[0], structnames=names if len(names) > 1 else names[0], hdr=hdr)
            back = ymod.yanny('/data/test.par')
            for obj, what in ((par, 'writer object'), (back, 'fresh read')):
                ctx.require(sorted(obj.tables()) == sorted(nm.upper() for nm in names), what + ': table names upper-cased', dict(d, tables=[str(t) for t in obj.tables()]))
                ctx.require(text_eq(obj['keyword'], hdr['keyword']), what + ': header value equals the text form of what was supplied', d)
                ctx.require(text_eq(obj['num'], '42'), what + ': header value equals the text form of what was supplied', d)
                for tb, nm in zip(tables, names):
                    T = nm.upper()
                    cols = list(tb.dtype.names)
                    ctx.require(list(obj.columns(T)) == cols, what + ': column order', dict(d, table=T))
                    ctx.require(obj.size(T) == tb.shape[0], what + ': row count', dict(d, table=T))
                    rdt = obj[T].dtype
                    for c in cols:
                        f0, f1 = tb.dtype.fields[c][0], rdt.fields[c][0]
                        ctx.require(f0.base.kind == f1.base.kind and f0.shape == f1.shape and (f0.base.kind == 'S' or f0.base == f1.base),
                                    what + ': column types', dict(d, table=T, col=c, got=str(f1), exp=str(f0)))
                        got = column_values(obj, T, c)
                        exp = tb._fields[c]
                        for i in range(tb.shape[0]):
                            e = exp[i].tolist() if isinstance(exp[i], np.ndarray) else exp[i]
                            ctx.require(cell_eq(got[i], e), what + ': every cell equal', dict(d, table=T, col=c, row=i))
        finally:
            uninstall(ymod, saved)
    return Obligation('strings %s %s' % (list(lengths), layout), fn, bounds='string cells of lengths %s (%s)' % (list(lengths), layout),
                      max_paths=400000, max_seconds=1700)


class DigitZ(Z):
    """an integer cell given by its decimal digits (symbolic) - value and text stay in step"""
    __slots__ = ('digits',)


def digit_int(ctx, name, kind, negative, ndigits):
    info = np.iinfo(kind)
    ds = []
    for k in range(ndigits):
        t = z3.Int('%s_d%d' % (name, k))
        ctx.inputs['%s_d%d' % (name, k)] = t
        ctx.add(z3.And(t >= 48, t <= 57))
        ctx.declare_domain(t, range(48, 58))
        ds.append(t)
    if ndigits > 1:
        ctx.add(ds[0] != 48)
    val = z3.IntVal(0)
    for t in ds:
        val = val * 10 + (t - 48)
    if negative:
        ctx.add(val != 0)
        val = -val
    ctx.assume(z3.And(val >= int(info.min), val <= int(info.max)))
    z = DigitZ(z3.simplify(val))
    z.digits = SStr.mk((['-'] if negative else []) + ds)
    return z


def ob_ints(kind, negative, ndigits, arrlen=2):
    def fn(ctx):
        import pydl.pydlutils.yanny as ymod
        ctx.ints_as_Z = True
        fs = FS()
        saved = install(ymod, fs)
        try:
            d = {'fn': 'ints', 'kind': kind, 'negative': negative, 'ndigits': ndigits, 'arrlen': arrlen}
            ctx.detail = d
            rec = _rec(1, [('v', kind), ('arr', kind, (arrlen,)), ('s', 'S2')])
            v = digit_int(ctx, 'v', kind, negative, ndigits)
            a0 = digit_int(ctx, 'a', kind, not negative, max(1, ndigits - 1))
            _set(rec, 'v', 0, v)
            rec._fields['arr'][0, 0] = a0
            if arrlen > 1:
                rec._fields['arr'][0, 1] = Z(-1)
            _set(rec, 's', 0, b'ab')
            ymod.write_ndarray_to_yanny('/data/ints.par', rec, structnames='ints')
            back = ymod.yanny('/data/ints.par')
            T = 'INTS'
            ctx.require(back.size(T) == 1, 'row count', d)
            rdt = back[T].dtype
            ctx.require(rdt.fields['v'][0] == np.dtype(kind) and rdt.fields['arr'][0].base == np.dtype(kind) and rdt.fields['arr'][0].shape == (arrlen,),
                        'integer column types', dict(d, got=str(rdt)))
            gv = column_values(back, T, 'v')
            ga = column_values(back, T, 'arr')
            ctx.require(cell_eq(gv[0], v), 'every integer equal', dict(d, col='v'))
            ctx.require(cell_eq(ga[0], [a0, Z(-1)][:arrlen]), 'every integer array element equal', dict(d, col='arr'))
        finally:
            uninstall(ymod, saved)
    return Obligation('ints %s negative=%d digits=%d arrlen=%d' % (kind, negative, ndigits, arrlen), fn, bounds='every %s value with %d digits' % (kind, ndigits),
                      max_paths=200000, max_seconds=1700, solver_timeout_ms=120000)


def ob_misc(case):
    """zero rows, enums, Table entry points, existing file refused, unsupported dtypes refused"""
    def fn(ctx):
        import pydl.pydlutils.yanny as ymod
        from pydl.pydlutils import PydlutilsException
        fs = FS()
        saved = install(ymod, fs)
        saved_table = ymod.Table
        try:
            d = {'fn': 'misc', 'case': case}
            ctx.detail = d
            ch = sym_chars(ctx, 'm', 1, exclude='"')
            ctx.add(z3.And(ch[0] != ord('{'), ch[0] != ord('\\')))
            sv = SStr.mk(['a'] + ch, True)
            if case == 'zero-rows':
                rec = _rec(0, [('id', 'i4'), ('name', 'S5'), ('x', 'f8', (3,))])
                rec1 = _rec(1, [('k', 'i2'), ('t', 'S3')])
                _set(rec1, 'k', 0, BV(3, 'i2'))
                _set(rec1, 't', 0, sv)
                ymod.write_ndarray_to_yanny('/d/z.par', (rec, rec1), structnames=('empty', 'full'))
                back = ymod.yanny('/d/z.par')
                ctx.require(sorted(back.tables()) == ['EMPTY', 'FULL'], 'zero-row table survives', d)
                ctx.require(back.size('EMPTY') == 0 and list(back.columns('EMPTY')) == ['id', 'name', 'x'], 'zero-row table: columns and size', d)
                ctx.require(cell_eq(column_values(back, 'FULL', 't')[0], sv), 'cell of the other table', d)
            elif case == 'enum':
                rec = _rec(2, [('id', 'i4'), ('kind', 'S5'), ('name', 'S3')])
                for i, lab in enumerate((b'ALPHA', b'BETA')):
                    _set(rec, 'id', i, BV(i, 'i4'))
                    _set(rec, 'kind', i, lab)
                    _set(rec, 'name', i, sv)
                # the enum's type name is any identifier (choice made by the solver): upper, mixed or lower case
                ename = ENUM_NAMES[int(ctx.int('enum_name', 0, len(ENUM_NAMES) - 1))]
                d = dict(d, enum_name=ename)
                ymod.write_ndarray_to_yanny('/d/e.par', rec, structnames='en', enums={'kind': (ename, ('ALPHA', 'BETA', 'GAMMA'))})
                back = ymod.yanny('/d/e.par')
                ctx.require([bytes(SStr.lift(v).concrete()) if isinstance(v, SStr) else bytes(v) for v in column_values(back, 'EN', 'kind')] == [b'ALPHA', b'BETA'],
                            'enum columns read back as label text', d)
                ctx.require(back.isenum('EN', 'kind') and not back.isenum('EN', 'name'), 'enum column typed by the enum definition', d)
                ctx.require(cell_eq(column_values(back, 'EN', 'name')[1], sv), 'string cell next to an enum column', d)
            elif case == 'table':
                class FakeTable(object):
                    def __init__(self, data):
                        self.data = data
                        self.meta = None
                ymod.Table = FakeTable
                rec = SymTable(2, np.dtype([('id', 'i4'), ('name', 'S3')]))
                for i in range(2):
                    _set(rec, 'id', i, BV(5 + i, 'i4'))
                    _set(rec, 'name', i, sv if i else b'q')
                ctx.add(z3.And(ch[0] != ord('#'), ch[0] != 32, ch[0] != 9))
                rec.meta = {'origin': S('o', ch)}
                ymod.write_table_yanny(rec, '/d/t.par', tablename='tab')
                t = ymod.read_table_yanny('/d/t.par', 'tab')
                ctx.require(z3.And(cell_eq(t.data['name'][1], sv), cell_eq(t.data['id'][1], BV(6, 'i4'))), 'Table entry points: cells equal', d)
                ctx.require(text_eq(t.meta['origin'], rec.meta['origin']), 'Table entry points: meta equal', d)
            elif case in ('header-keys', 'header-keys-table'):
                # the keyword is any word that is not a table name (choice made by the solver), among them the words the
                # format and the parser use for their own bookkeeping
                key = HDR_KEYS[int(ctx.int('hdr_key', 0, len(HDR_KEYS) - 1))]
                d = dict(d, key=key)
                ctx.add(z3.And(ch[0] != ord('#'), ch[0] != 32, ch[0] != 9))
                hv = S('v', ch)
                if case == 'header-keys':
                    rec = _rec(1, [('id', 'i4'), ('name', 'S3')])
                    _set(rec, 'id', 0, BV(1, 'i4'))
                    _set(rec, 'name', 0, b'q')
                    par = ymod.write_ndarray_to_yanny('/d/h.par', rec, structnames='mystruct', hdr={key: hv, 'other': 7})
                    back = ymod.yanny('/d/h.par')
                    for obj, what in ((par, 'writer object'), (back, 'fresh read')):
                        ctx.require(list(obj.pairs()) == [key, 'other'], what + ': header keywords, in the order supplied', dict(d, got=[str(k) for k in obj.pairs()]))
                        ctx.require(text_eq(obj[key], hv) if key in obj.keys() else False, what + ': header value equals the text form of what was supplied', d)
                        ctx.require(list(obj.tables()) == ['MYSTRUCT'], what + ': table names upper-cased', d)
                else:
                    class FakeTable(object):
                        def __init__(self, data):
                            self.data = data
                            self.meta = None
                    ymod.Table = FakeTable
                    rec = SymTable(1, np.dtype([('id', 'i4'), ('name', 'S3')]))
                    _set(rec, 'id', 0, BV(1, 'i4'))
                    _set(rec, 'name', 0, b'q')
                    rec.meta = {key: hv, 'other': 7}
                    ymod.write_table_yanny(rec, '/d/t.par', tablename='tab')
                    t = ymod.read_table_yanny('/d/t.par', 'tab')
                    ctx.require(sorted(t.meta.keys()) == sorted([key, 'other']), 'Table entry points: meta keywords', dict(d, got=[str(k) for k in t.meta.keys()]))
                    ctx.require(key in t.meta and text_eq(t.meta[key], hv), 'Table entry points: meta equal', d)
            elif case == 'exists':
                rec = _rec(1, [('id', 'i4'), ('name', 'S3')])
                _set(rec, 'name', 0, sv)
                fs.files['/d/x.par'] = 'name value\n'
                before = dict(fs.files)
                try:
                    ymod.write_ndarray_to_yanny('/d/x.par', rec)
                    ok = False
                except PydlutilsException:
                    ok = True
                ctx.require(ok and fs.files == before, 'existing file is refused and left unchanged', d)
            else:   # unsupported dtypes
                for bad in ('u1', 'u2', 'u4', 'u8', 'i1', 'b1', 'f2', 'c8', 'c16'):
                    rec = _rec(1, [('id', 'i4'), ('badcol', bad), ('name', 'S3')])
                    _set(rec, 'name', 0, sv)
                    try:
                        ymod.write_ndarray_to_yanny('/d/bad_%s.par' % bad, rec)
                        ok = False
                    except Exception:
                        ok = True
                    ctx.require(ok and ('/d/bad_%s.par' % bad) not in fs.files, 'unsupported scalar column type %s refused, nothing written' % bad, dict(d, dtype=bad))
            ctx.require(ch[0] == ch[0], 'symbolic touch')
        finally:
            ymod.Table = saved_table
            uninstall(ymod, saved)
    return Obligation('misc %s' % case, fn, bounds=case, max_paths=100000)


def obligations(tier, seed):
    q = tier == 'quick'
    obs = []
    obs.append(ob_strings((0, 2), 'scalar-last'))
    obs.append(ob_strings((2,), 'scalar-mid'))
    obs.append(ob_strings((1, 1), 'array'))
    obs.append(ob_strings((2,), 'array'))          # a 1-D array column of length exactly 1
    obs.append(ob_ints('i4', False, 3, arrlen=1))
    obs.append(ob_strings((1,), 'two-tables'))
    if not q:
        obs.append(ob_strings((3,), 'scalar-last'))
        obs.append(ob_strings((2, 1), 'scalar-mid'))
        obs.append(ob_strings((2, 1), 'array'))
        obs.append(ob_strings((4,), 'scalar-mid'))
        obs.append(ob_strings((2, 0), 'two-tables'))
    widths = {'i2': 5, 'i4': 10, 'i8': 19}
    for kind in (('i2', 'i4') if q else ('i2', 'i4', 'i8')):
        for nd in sorted(set([1, 2, widths[kind] - 1, widths[kind]])) if q else range(1, widths[kind] + 1):
            for neg in (False, True):
                if q and nd == 2 and neg:
                    continue
                obs.append(ob_ints(kind, neg, nd))
    for case in ('zero-rows', 'enum', 'table', 'header-keys', 'header-keys-table', 'exists', 'unsupported'):
        obs.append(ob_misc(case))
    return obs


def validate(seed, tier):
    from . import symre_validation
    return symre_validation.run(seed + 7, 40 if tier == 'quick' else 150)


# ------------------------------------------------------------------ replay
def replay(rec):
    import os
    import tempfile
    import warnings
    warnings.simplefilter('ignore')
    from pydl.pydlutils.yanny import yanny, write_ndarray_to_yanny
    d = rec['detail'] or {}
    inp = rec['inputs'] or {}
    tmp = tempfile.mkdtemp(prefix='c01replay')
    fn = os.path.join(tmp, 't.par')
    try:
        if d.get('fn') == 'strings':
            lengths, layout = d['lengths'], d['layout']
            strs = [''.join(chr(int(inp.get('s%d_%d' % (k, j), 65))) for j in range(ln)).encode('latin-1') for k, ln in enumerate(lengths)]
            n = len(lengths) if layout != 'array' else 1
            if layout == 'scalar-last':
                dt = [('id', 'i4'), ('x', 'f4'), ('name', 'S4')]
            elif layout == 'scalar-mid':
                dt = [('name', 'S4'), ('id', 'i2'), ('flag', 'S3')]
            elif layout == 'array':
                dt = [('id', 'i4'), ('tags', 'S4', (len(lengths),)), ('x', 'f8')]
            else:
                dt = [('id', 'i4'), ('name', 'S4')]
            a = np.zeros(n, dtype=dt)
            for i in range(n):
                if 'id' in a.dtype.names:
                    a['id'][i] = 10 + i
                if 'x' in a.dtype.names:
                    a['x'][i] = 1.5 + i
                if 'flag' in a.dtype.names:
                    a['flag'][i] = b'ok'
            if layout == 'array':
                a['tags'][0] = strs
            else:
                a['name'] = strs
            tables, names = [a], ['mystruct']
            if layout == 'two-tables':
                b = np.zeros(1, dtype=[('n', 'i8'), ('w', 'S3')])
                b['n'], b['w'] = -7, b'z#z'
                tables.append(b)
                names.append('other')
            hv = 'v' + chr(int(inp.get('h_0', 65)))
            write_ndarray_to_yanny(fn, tables if len(tables) > 1 else tables[0], structnames=names if len(names) > 1 else names[0], hdr={'keyword': hv, 'num': 42})
            back = yanny(fn)
            if back['keyword'] != hv or back['num'] != '42':
                return True
            for tb, nm in zip(tables, names):
                got = back[nm.upper()]
                if got.dtype.names != tb.dtype.names or len(got) != len(tb):
                    return True
                for c in tb.dtype.names:
                    f0, f1 = tb.dtype.fields[c][0], got.dtype.fields[c][0]
                    if f0.shape != f1.shape or f0.base.kind != f1.base.kind or (f0.base.kind != 'S' and f0.base != f1.base):
                        return True
                    if tb[c].tolist() != got[c].tolist():
                        return True
            return False
        if d.get('fn') == 'misc' and d.get('case') == 'enum':
            ename = d.get('enum_name', ENUM_NAMES[int(inp.get('enum_name', 0))])
            sv = 'a' + chr(int(inp.get('m_0', 65)))
            rec_ = np.zeros(2, dtype=[('id', 'i4'), ('kind', 'S5'), ('name', 'S3')])
            for i, lab in enumerate((b'ALPHA', b'BETA')):
                rec_['id'][i], rec_['kind'][i], rec_['name'][i] = i, lab, sv.encode('latin-1')
            write_ndarray_to_yanny(fn, rec_, structnames='en', enums={'kind': (ename, ('ALPHA', 'BETA', 'GAMMA'))})
            back = yanny(fn)          # an exception here = reproduced for 'exception:' labels (harness.replay)
            return bool(back['EN']['kind'].tolist() != [b'ALPHA', b'BETA'] or not back.isenum('EN', 'kind') or back.isenum('EN', 'name'))
        if d.get('fn') == 'misc' and d.get('case') == 'zero-rows':
            sv = ('a' + chr(int(inp.get('m_0', 65)))).encode('latin-1')
            r0 = np.zeros(0, dtype=[('id', 'i4'), ('name', 'S5'), ('x', 'f8', (3,))])
            r1 = np.zeros(1, dtype=[('k', 'i2'), ('t', 'S3')])
            r1['k'], r1['t'] = 3, sv
            write_ndarray_to_yanny(fn, (r0, r1), structnames=('empty', 'full'))     # an exception = reproduced for 'exception:' labels
            back = yanny(fn)
            return bool(sorted(back.tables()) != ['EMPTY', 'FULL'] or back.size('EMPTY') != 0 or list(back.columns('EMPTY')) != ['id', 'name', 'x']
                        or back['FULL']['t'].tolist() != [sv])
        if d.get('fn') == 'misc' and d.get('case') in ('header-keys', 'header-keys-table'):
            key = d.get('key', HDR_KEYS[int(inp.get('hdr_key', 0))])
            hv = 'v' + chr(int(inp.get('m_0', 65)))
            rec_ = np.zeros(1, dtype=[('id', 'i4'), ('name', 'S3')])
            rec_['id'], rec_['name'] = 1, b'q'
            if d['case'] == 'header-keys':
                par = write_ndarray_to_yanny(fn, rec_, structnames='mystruct', hdr={key: hv, 'other': 7})
                back = yanny(fn)
                return bool(list(par.pairs()) != [key, 'other'] or list(back.pairs()) != [key, 'other'] or back[key] != hv or par[key] != hv
                            or list(back.tables()) != ['MYSTRUCT'])
            from astropy.table import Table
            from pydl.pydlutils.yanny import write_table_yanny, read_table_yanny
            t = Table(rec_)
            t.meta = {key: hv, 'other': 7}
            write_table_yanny(t, fn, tablename='tab')
            t2 = read_table_yanny(fn, 'tab')
            return bool(sorted(t2.meta.keys()) != sorted([key, 'other']) or t2.meta[key] != hv)
        if d.get('fn') == 'ints':
            kind = d['kind']

            def val(name, neg, nd):
                t = ''.join(chr(int(inp.get('%s_d%d' % (name, k), 48))) for k in range(nd))
                return -int(t) if neg else int(t)
            al = d.get('arrlen', 2)
            a = np.zeros(1, dtype=[('v', kind), ('arr', kind, (al,)), ('s', 'S2')])
            a['v'][0] = val('v', d['negative'], d['ndigits'])
            a['arr'][0] = [val('a', not d['negative'], max(1, d['ndigits'] - 1)), -1][:al]
            a['s'][0] = b'ab'
            write_ndarray_to_yanny(fn, a, structnames='ints')
            back = yanny(fn)['INTS']
            return bool(back['v'].tolist() != a['v'].tolist() or back['arr'].tolist() != a['arr'].tolist() or back.dtype['v'] != a.dtype['v'])
        return False
    finally:
        import shutil
        shutil.rmtree(tmp, ignore_errors=True)
