"""C07 - bitmask names and values convert consistently for any maskbits file."""
import itertools
import numpy as np
import z3

from pathsym import core, symnp, sstr
from pathsym.core import R, B, Z, BV, zt
from pathsym.sstr import SStr
from .common import Obligation
from .yannylib import FS, install, uninstall, S

PID = 'C07'

META = {
    'functions_encoded': ['pydl.pydlutils.sdss.set_maskbits', 'sdss_flagval', 'sdss_flagname', 'sdss_flagexist', 'pydl.pydlutils.yanny.yanny (raw read of the definition file)'],
    'stubs': ['in-memory file system', 're -> pathsym.symre'],
    'assumptions': ['label and group names are concrete identifiers; bit numbers in the file are symbolic decimal digits (distinct, 0..63); '
                    'queried values are symbolic 64-bit vectors with a bounded number of set bits; letter case of the queried names is symbolic'],
    'outside_bounds': 'more than 4 labels per group; values with more than 2 (quick: 1) arbitrary set bits outside the defined ones',
}

GROUP = 'MYMASK'
FILECASE = (str.upper, str.lower, str.capitalize)
LABELS = ['ALPHA', 'BETA', 'GAMMA', 'DELTA']


def build_file(ctx, nlabels, with_alias=True, top_bit=False, one_digit=False, vary=True):
    """maskbits file with symbolic bit numbers; returns (text, list of (label, bit Z))"""
    lines = ['typedef struct {', ' char flag[20];', ' short bit;', ' char label[30];', ' char description[100];', '} maskbits;', '',
             'typedef struct {', ' char flag[20];', ' char alias[20];', '} maskalias;', '']
    bits = []
    text_lines = []
    # spelling of the names inside the file: upper case (as SDSS writes them), lower case or capitalised - lookups are case-insensitive
    fcase = FILECASE[int(ctx.int('filecase', 0, len(FILECASE) - 1)) if vary else 0]
    for i in range(nlabels):
        if (top_bit is True and i == nlabels - 1) or (top_bit == 'first' and i == 0):
            digits = ['6', '3']
            val = z3.IntVal(63)
        else:
            d0 = z3.Int('bit%d_d0' % i)
            d1 = z3.Int('bit%d_d1' % i)
            ctx.inputs['bit%d_d0' % i] = d0
            ctx.inputs['bit%d_d1' % i] = d1
            ctx.add(z3.And(d0 >= 48, d0 <= 57, d1 >= 48, d1 <= 57))
            ctx.declare_domain(d0, range(48, 58))
            ctx.declare_domain(d1, range(48, 58))
            two = bool(ctx.bool('bit%d_two' % i)) if not one_digit else False
            if two:
                ctx.add(d0 != 48)
                digits = [d0, d1]
                val = (d0 - 48) * 10 + (d1 - 48)
            else:
                digits = [d0]
                val = d0 - 48
            ctx.add(z3.And(val >= 0, val <= 63))
        bits.append(val)
        text_lines.append(S('maskbits %s ' % fcase(GROUP), digits, ' %s "bit %d"' % (fcase(LABELS[i]), i)))
    for i in range(nlabels):
        for j in range(i + 1, nlabels):
            ctx.add(bits[i] != bits[j])
    other = ['maskbits OTHERGROUP 0 ZERO "zero"', 'maskbits OTHERGROUP 1 ONE "one"']
    alias = ['maskalias %s %s' % (fcase(GROUP), fcase('ALIASG'))] if with_alias else []
    # row order of the file: the rows of a group need not be contiguous (choice made by the solver)
    split = int(ctx.int('rowsplit', 0, 1)) if (nlabels >= 2 and vary) else 0
    rows = text_lines + other if not split else text_lines[:1] + other[:1] + text_lines[1:] + other[1:]
    text = None
    for ln in lines + rows + alias:
        piece = S(ln, '\n')
        text = piece if text is None else text + piece
    return text, list(zip(LABELS[:nlabels], bits))


def sym_case(ctx, name, tag):
    items = []
    for i, ch in enumerate(name):
        b = z3.Bool('%s_up%d' % (tag, i))
        ctx.inputs['%s_up%d' % (tag, i)] = b
        items.append(z3.If(b, z3.IntVal(ord(ch.upper())), z3.IntVal(ord(ch.lower()))) if ch.isalpha() else ch)
    return SStr.mk(items)


def _setup(ctx, nlabels, with_alias=True, top_bit=False, one_digit=False, vary=True):
    import pydl.pydlutils.yanny as ymod
    import pydl.pydlutils.sdss as sdss
    fs = FS()
    saved = install(ymod, fs)
    text, defs = build_file(ctx, nlabels, with_alias, top_bit, one_digit, vary)
    fs.files['/d/mask.par'] = text
    try:
        sdss.maskbits = sdss.set_maskbits(maskbits_file='/d/mask.par')
    finally:
        uninstall(ymod, saved)
    return sdss, defs


def ob_flagval(nlabels, subset, use_alias, top='last', vary=False):
    def fn(ctx):
        sdss, defs = _setup(ctx, nlabels, top_bit=(True if top == 'last' else 'first'), vary=vary, one_digit=vary)
        d = {'fn': 'flagval', 'nlabels': nlabels, 'subset': list(subset), 'alias': use_alias, 'top': top}
        ctx.detail = d
        grp = sym_case(ctx, 'ALIASG' if use_alias else GROUP, 'g')
        names = [sym_case(ctx, LABELS[i], 'l%d' % i) for i in subset]
        val = sdss.sdss_flagval(grp, names if len(names) != 1 else names[0])
        exp = z3.BitVecVal(0, 64)
        for i in subset:
            exp = exp | (z3.BitVecVal(1, 64) << z3.Int2BV(defs[i][1], 64))
        ctx.require(isinstance(val, BV) and val.dtype == np.dtype('u8') or isinstance(val, np.uint64), 'sdss_flagval returns uint64', d)
        vt = val.term if isinstance(val, BV) else z3.BitVecVal(int(val), 64)
        ctx.require(vt == exp, 'names -> value: exactly the OR of 2^bit (case-insensitive, alias = group)', d)
        # value -> names -> value on defined bits
        back = sdss.sdss_flagname(GROUP, val)
        order = sorted(subset, key=lambda i: 0)
        expected = [LABELS[i] for i in subset]
        got = [str(x).upper() for x in back]
        ctx.require(sorted(got) == sorted(expected), 'value -> names returns exactly the labels of the set bits', dict(d, got=got))
        # ascending bit order
        pos = {LABELS[i]: defs[i][1] for i in subset}
        for a, b in zip(got, got[1:]):
            ctx.require(pos[a] < pos[b], 'names are listed in ascending bit order', dict(d, got=got))
        again = sdss.sdss_flagval(GROUP, got) if got else np.uint64(0)
        at = again.term if isinstance(again, BV) else z3.BitVecVal(int(again), 64)
        ctx.require(at == vt, 'names -> value -> names -> value is the identity on defined bits', d)
    return Obligation('flagval labels=%d subset=%s alias=%d top=%s%s' % (nlabels, list(subset), use_alias, top, ' file-variants' if vary else ''), fn,
                      bounds='%d labels with symbolic bit numbers (one at bit 63), subset %s' % (nlabels, list(subset)), max_paths=400000, max_seconds=1700)


def ob_flagname(nlabels, popcount, one_digit=False):
    def fn(ctx):
        sdss, defs = _setup(ctx, nlabels, one_digit=one_digit, vary=False)
        d = {'fn': 'flagname', 'nlabels': nlabels, 'popcount': popcount}
        ctx.detail = d
        # the queried value: up to `popcount` set bits at solver-chosen positions (concretised on demand)
        pos_sel = []
        val = 0
        for k in range(popcount):
            p = int(ctx.int('p%d' % k, -1, 63))
            if pos_sel and p != -1:
                ctx.assume(p > max(pos_sel + [-1]))
            if p >= 0:
                pos_sel.append(p)
                val |= 1 << p
        d = dict(d, value=val)
        v = BV(val, 'u8')
        names = sdss.sdss_flagname(GROUP, np.uint64(val))
        got = [str(x).upper() for x in names]
        for lab, bit in defs:
            isset = z3.Extract(0, 0, z3.LShR(v.term, z3.Int2BV(bit, 64))) == 1
            ctx.require(isset == z3.BoolVal(lab in got), 'value -> names: a label is named exactly when its bit is set', dict(d, label=lab, got=got))
        ctx.require(all(g in [l for l, b in defs] for g in got), 'value -> names: undefined bits name nothing', dict(d, got=got))
        pos = dict(defs)
        for a, b in zip(got, got[1:]):
            ctx.require(pos[a] < pos[b], 'names are listed in ascending bit order', dict(d, got=got))
        # names -> value gives back the defined part of the value
        back = sdss.sdss_flagval(GROUP, got) if got else np.uint64(0)
        bt = back.term if isinstance(back, BV) else z3.BitVecVal(int(back), 64)
        defined = z3.BitVecVal(0, 64)
        for lab, bit in defs:
            defined = defined | (z3.BitVecVal(1, 64) << z3.Int2BV(bit, 64))
        ctx.require(bt == (v.term & defined), 'value -> names -> value is the identity on defined bits', d)
        s = sdss.sdss_flagname(GROUP, np.uint64(val), concat=True)
        ctx.require(str(s).upper() == ' '.join(got), 'concat form joins the same names with blanks', d)
    return Obligation('flagname labels=%d popcount<=%d one_digit=%d' % (nlabels, popcount, one_digit), fn, bounds='every 64-bit value with <= %d set bits' % popcount,
                      max_paths=600000, max_seconds=1700)


def ob_errors(nlabels):
    def fn(ctx):
        sdss, defs = _setup(ctx, nlabels, one_digit=True)
        d = {'fn': 'errors', 'nlabels': nlabels}
        ctx.detail = d

        def raises(f, exc):
            try:
                f()
                return False
            except exc:
                return True
        ctx.require(raises(lambda: sdss.sdss_flagval('NOSUCH', 'ALPHA'), KeyError), 'unknown group -> KeyError (names -> value)', d)
        ctx.require(raises(lambda: sdss.sdss_flagval(GROUP, 'NOSUCH'), KeyError), 'unknown label -> KeyError', d)
        ctx.require(raises(lambda: sdss.sdss_flagval(GROUP, ['ALPHA', 'NOSUCH']), KeyError), 'unknown label in a list -> KeyError', d)
        v = np.uint64(1 << int(ctx.int('p0', 0, 63)))
        ctx.require(raises(lambda: sdss.sdss_flagname('NOSUCH', v), KeyError), 'unknown group with a non-zero value -> KeyError', d)
        ctx.require(list(sdss.sdss_flagname('NOSUCH', 0)) == [], 'a zero value names no bits in any group', d)
        ctx.require(sdss.sdss_flagexist(GROUP, 'alpha') is True, 'flagexist: known label', d)
        ctx.require(sdss.sdss_flagexist(GROUP, 'nosuch') is False, 'flagexist: unknown label reported without raising', d)
        ctx.require(sdss.sdss_flagexist('nosuch', 'alpha', flagexist=True) == (False, False), 'flagexist: unknown group reported without raising', d)
        l, f, which = sdss.sdss_flagexist('aliasg', ['ALPHA', 'nosuch', 'beta'][:max(2, nlabels)], flagexist=True, whichexist=True)
        ctx.require(f is True and l is False and list(which)[:2] == [True, False], 'flagexist: per-label report through an alias', dict(d, which=list(which)))
        ctx.require(sdss.sdss_flagexist(GROUP, ['ALPHA'], whichexist=True) == (True, [True]), 'flagexist: whichexist form', d)
    return Obligation('errors labels=%d' % nlabels, fn, bounds='unknown groups / labels', max_paths=100000)


def obligations(tier, seed):
    q = tier == 'quick'
    obs = []
    obs.append(ob_flagval(2, (0,), False, vary=True))       # spelling of the names in the file and row order: solver choices
    obs.append(ob_flagval(2, (1, 0), True))
    obs.append(ob_flagval(2, (0, 1), False, top='first'))      # rows of the file NOT in ascending bit order
    obs.append(ob_flagval(3, (2, 0), False) if not q else ob_flagval(2, (1,), False))
    obs.append(ob_flagname(2, 1, one_digit=q))
    obs.append(ob_errors(2))
    if not q:
        obs.append(ob_flagval(3, (0, 1, 2), True))
        obs.append(ob_flagval(4, (3, 1), False))
        obs.append(ob_flagname(3, 1))
        obs.append(ob_flagname(2, 2))
        obs.append(ob_flagname(4, 1))
    return obs


def validate(seed, tier):
    from . import symre_validation
    return symre_validation.run(seed + 21, 30 if tier == 'quick' else 100)


# ------------------------------------------------------------------ replay
def replay(rec):
    import os
    import shutil
    import tempfile
    import pydl.pydlutils.sdss as sdss
    d = rec['detail'] or {}
    inp = rec['inputs'] or {}
    nlabels = d['nlabels']
    top = d.get('fn') == 'flagval'
    topfirst = d.get('top') == 'first'
    tmp = tempfile.mkdtemp(prefix='c07replay')
    try:
        lines = ['typedef struct {', ' char flag[20];', ' short bit;', ' char label[30];', ' char description[100];', '} maskbits;', '',
                 'typedef struct {', ' char flag[20];', ' char alias[20];', '} maskalias;', '']
        bits = []
        for i in range(nlabels):
            if top and ((not topfirst and i == nlabels - 1) or (topfirst and i == 0)):
                b = 63
            else:
                d0 = int(inp.get('bit%d_d0' % i, 48)) - 48
                d1 = int(inp.get('bit%d_d1' % i, 48)) - 48
                b = d0 * 10 + d1 if inp.get('bit%d_two' % i, False) else d0
            bits.append(b)
        fcase = FILECASE[int(inp.get('filecase', 0))]
        grows = ['maskbits %s %d %s "bit %d"' % (fcase(GROUP), bits[i], fcase(LABELS[i]), i) for i in range(nlabels)]
        other = ['maskbits OTHERGROUP 0 ZERO "zero"', 'maskbits OTHERGROUP 1 ONE "one"']
        lines += (grows + other) if not int(inp.get('rowsplit', 0)) else (grows[:1] + other[:1] + grows[1:] + other[1:])
        lines += ['maskalias %s %s' % (fcase(GROUP), fcase('ALIASG'))]
        fn = os.path.join(tmp, 'm.par')
        with open(fn, 'w') as f:
            f.write('\n'.join(lines) + '\n')
        sdss.maskbits = sdss.set_maskbits(maskbits_file=fn)

        def case(name, tag):
            return ''.join((ch.upper() if inp.get('%s_up%d' % (tag, i), True) else ch.lower()) for i, ch in enumerate(name))
        if d['fn'] == 'flagval':
            subset = d['subset']
            grp = case('ALIASG' if d['alias'] else GROUP, 'g')
            names = [case(LABELS[i], 'l%d' % i) for i in subset]
            val = sdss.sdss_flagval(grp, names if len(names) != 1 else names[0])
            exp = 0
            for i in subset:
                exp |= 1 << bits[i]
            if int(val) != exp:
                return True
            got = sdss.sdss_flagname(GROUP, val)
            expn = [LABELS[i] for i in sorted(subset, key=lambda i: bits[i])]
            if [str(g).upper() for g in got] != expn:
                return True
            return int(sdss.sdss_flagval(GROUP, got)) != exp
        if d['fn'] == 'flagname':
            v = int(d.get('value', 0))
            got = [str(g).upper() for g in sdss.sdss_flagname(GROUP, np.uint64(v))]
            expn = [LABELS[i] for i in sorted(range(nlabels), key=lambda i: bits[i]) if (v >> bits[i]) & 1]
            if got != expn:
                return True
            back = int(sdss.sdss_flagval(GROUP, got)) if got else 0
            defined = 0
            for b in bits:
                defined |= 1 << b
            return back != (v & defined) or sdss.sdss_flagname(GROUP, np.uint64(v), concat=True).upper() != ' '.join(got)
        return True
    finally:
        shutil.rmtree(tmp, ignore_errors=True)
