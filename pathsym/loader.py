"""Instrumenting import loader: every run re-reads pydl's *current* source under $PYDL_REPO
(default /repo), rewrites the AST so that symbolic values can flow through it, and executes it.
Nothing is written under the repository.  On concrete values every rewrite is the identity, which
is checked by running the repository's own test-suite through this loader (translation validation).

Rewrites (see DESIGN.md 2.3):
 1. obj.meth(args)           -> _sx.call(obj, 'meth', args)
 2. f-strings / 'fmt' % x    -> _sx.fstr(...) / _sx.mod(fmt, x)
 3. a in b / a not in b      -> _sx.contains(b, a) / not ...
 4. subscripts               -> _sx.getitem / setitem / delitem / augitem
 5. import numpy/scipy/re/.. -> _sx.import_(module[, name])   (module level and function level)
 6. x.dtype                  -> _sx.dtype_of(x)
 7. builtins isinstance/int/float/str/len/range/min/max/abs/sum/round/bool/sorted/zip... are
    shadowed in the module globals by symbolic-aware versions (no source change).
 8. float literals that are not binary fractions (0.1, 5.792105e-2) -> _sx.flit(v): their exact
    decimal value in exact mode, the ordinary float otherwise.
 9. a & b, a | b, a ^ b       -> _sx.bitop(...)  (keeps the dtype of numpy scalars next to object arrays)
 9b. a + b, a - b, a * b, a ** b, a << b, a >> b, a // b with no literal operand -> _sx.bitop(...) for the same reason
"""
import ast
import importlib.abc
import importlib.machinery
import importlib.util
import os
import sys

REPO = os.environ.get('PYDL_REPO', '/repo')

_REWRITE_IMPORT_ROOTS = ('numpy', 'scipy', 're', 'os', 'warnings', 'glob', 'time', 'datetime',
                         'astropy', 'matplotlib', 'pickle')

STATS = {'calls': 0, 'subscripts': 0, 'imports': 0, 'dtype': 0, 'contains': 0, 'fmt': 0,
         'modules': []}


def _name(id_, ctx=None):
    return ast.Name(id=id_, ctx=ctx or ast.Load())


def _sx(attr):
    return ast.Attribute(value=_name('_sx'), attr=attr, ctx=ast.Load())


def _slice_to_expr(s):
    """ast index expression (may contain ast.Slice) -> ordinary expression."""
    if isinstance(s, ast.Slice):
        none = ast.Constant(value=None)
        return ast.Call(func=_name('slice'), args=[s.lower or none, s.upper or none, s.step or none],
                        keywords=[])
    if isinstance(s, ast.Tuple):
        return ast.Tuple(elts=[_slice_to_expr(e) for e in s.elts], ctx=ast.Load())
    return s


_AUG = {ast.Add: 'iadd', ast.Sub: 'isub', ast.Mult: 'imul', ast.Div: 'itruediv',
        ast.FloorDiv: 'ifloordiv', ast.Mod: 'imod', ast.BitAnd: 'iand', ast.BitOr: 'ior',
        ast.BitXor: 'ixor', ast.LShift: 'ilshift', ast.RShift: 'irshift', ast.Pow: 'ipow'}


class Rewriter(ast.NodeTransformer):

    def __init__(self, modname):
        self.modname = modname

    # ---- 5. imports
    def _import_override(self, modname):
        root = modname.split('.')[0]
        return root in _REWRITE_IMPORT_ROOTS

    def visit_Import(self, node):
        out = []
        for alias in node.names:
            if self._import_override(alias.name):
                STATS['imports'] += 1
                if alias.asname is None:
                    # `import os` / `import matplotlib.pyplot` binds the root name
                    root = alias.name.split('.')[0]
                    call = ast.Call(func=_sx('import_'), args=[ast.Constant(value=root)], keywords=[])
                    tgt = root
                    if '.' in alias.name:
                        # make sure the submodule is imported for real as well
                        out.append(ast.Expr(value=ast.Call(func=_sx('import_'),
                                                           args=[ast.Constant(value=alias.name)], keywords=[])))
                else:
                    call = ast.Call(func=_sx('import_'), args=[ast.Constant(value=alias.name)], keywords=[])
                    tgt = alias.asname
                out.append(ast.Assign(targets=[_name(tgt, ast.Store())], value=call))
            else:
                out.append(ast.Import(names=[alias]))
        return [ast.copy_location(o, node) for o in out]

    def visit_ImportFrom(self, node):
        if node.level == 0 and node.module and self._import_override(node.module):
            out = []
            for alias in node.names:
                if alias.name == '*':
                    return node
                STATS['imports'] += 1
                call = ast.Call(func=_sx('import_'),
                                args=[ast.Constant(value=node.module), ast.Constant(value=alias.name)],
                                keywords=[])
                out.append(ast.copy_location(
                    ast.Assign(targets=[_name(alias.asname or alias.name, ast.Store())], value=call), node))
            return out
        return node

    # ---- 1. method calls
    def visit_Call(self, node):
        self.generic_visit(node)
        f = node.func
        if isinstance(f, ast.Attribute):
            if any(isinstance(a, ast.Starred) for a in node.args):
                return node
            if any(k.arg is None for k in node.keywords):
                return node
            if isinstance(f.value, ast.Call) and isinstance(f.value.func, ast.Name) \
                    and f.value.func.id == 'super':
                return node
            if isinstance(f.value, ast.Name) and f.value.id == '_sx':
                return node
            STATS['calls'] += 1
            new = ast.Call(func=_sx('call'), args=[f.value, ast.Constant(value=f.attr)] + node.args,
                           keywords=node.keywords)
            return ast.copy_location(new, node)
        return node

    # ---- 6. .dtype
    def visit_Attribute(self, node):
        self.generic_visit(node)
        if node.attr == 'dtype' and isinstance(node.ctx, ast.Load):
            STATS['dtype'] += 1
            return ast.copy_location(ast.Call(func=_sx('dtype_of'), args=[node.value], keywords=[]), node)
        return node

    # ---- 8. decimal float literals
    def visit_Constant(self, node):
        v = node.value
        if isinstance(v, float) and v == v and v not in (float('inf'), float('-inf')):
            from fractions import Fraction
            if Fraction(repr(v)) != Fraction(v):
                # a literal such as 5.792105e-2 that is not a binary fraction: in the exact-real model
                # it denotes its decimal value (rounding is outside every numeric claim)
                return ast.copy_location(ast.Call(func=_sx('flit'), args=[ast.Constant(value=v)], keywords=[]), node)
        return node

    # ---- 3. in / not in
    def visit_Compare(self, node):
        self.generic_visit(node)
        if len(node.ops) == 1 and isinstance(node.ops[0], (ast.In, ast.NotIn)):
            STATS['contains'] += 1
            call = ast.Call(func=_sx('contains'), args=[node.comparators[0], node.left], keywords=[])
            if isinstance(node.ops[0], ast.NotIn):
                call = ast.Call(func=_sx('not_'), args=[call], keywords=[])
            return ast.copy_location(call, node)
        return node

    # ---- 2. formatting
    def visit_JoinedStr(self, node):
        self.generic_visit(node)
        STATS['fmt'] += 1
        args = []
        for v in node.values:
            if isinstance(v, ast.Constant):
                args.append(v)
            else:  # FormattedValue
                spec = v.format_spec
                if spec is None:
                    spec_e = ast.Constant(value='')
                elif isinstance(spec, ast.JoinedStr) and all(isinstance(x, ast.Constant) for x in spec.values):
                    spec_e = ast.Constant(value=''.join(x.value for x in spec.values))
                else:
                    return node
                args.append(ast.Tuple(elts=[v.value, ast.Constant(value=v.conversion), spec_e],
                                      ctx=ast.Load()))
        return ast.copy_location(ast.Call(func=_sx('fstr'), args=args, keywords=[]), node)

    def visit_BinOp(self, node):
        self.generic_visit(node)
        if isinstance(node.op, (ast.BitAnd, ast.BitOr, ast.BitXor)):
            opn = {ast.BitAnd: 'and_', ast.BitOr: 'or_', ast.BitXor: 'xor'}[type(node.op)]
            return ast.copy_location(ast.Call(func=_sx('bitop'), args=[ast.Constant(value=opn), node.left, node.right],
                                              keywords=[]), node)
        if isinstance(node.op, (ast.Add, ast.Sub, ast.Mult, ast.Pow, ast.LShift, ast.RShift, ast.FloorDiv)) \
                and not isinstance(node.left, ast.Constant) and not isinstance(node.right, ast.Constant):
            opn = {ast.Add: 'add', ast.Sub: 'sub', ast.Mult: 'mul', ast.Pow: 'pow', ast.LShift: 'lshift', ast.RShift: 'rshift',
                   ast.FloorDiv: 'floordiv'}[type(node.op)]
            return ast.copy_location(ast.Call(func=_sx('bitop'), args=[ast.Constant(value=opn), node.left, node.right],
                                              keywords=[]), node)
        if isinstance(node.op, ast.Mod) and isinstance(node.left, ast.Constant) \
                and isinstance(node.left.value, str):
            STATS['fmt'] += 1
            return ast.copy_location(ast.Call(func=_sx('mod'), args=[node.left, node.right], keywords=[]), node)
        return node

    # ---- 4. subscripts
    def visit_Subscript(self, node):
        self.generic_visit(node)
        if isinstance(node.ctx, ast.Load):
            STATS['subscripts'] += 1
            return ast.copy_location(
                ast.Call(func=_sx('getitem'), args=[node.value, _slice_to_expr(node.slice)], keywords=[]), node)
        return node

    def visit_Assign(self, node):
        self.generic_visit(node)
        if len(node.targets) == 1 and isinstance(node.targets[0], ast.Subscript):
            t = node.targets[0]
            STATS['subscripts'] += 1
            call = ast.Call(func=_sx('setitem'), args=[t.value, _slice_to_expr(t.slice), node.value], keywords=[])
            return ast.copy_location(ast.Expr(value=call), node)
        return node

    def visit_AugAssign(self, node):
        self.generic_visit(node)
        if isinstance(node.target, ast.Subscript) and type(node.op) in _AUG:
            t = node.target
            STATS['subscripts'] += 1
            call = ast.Call(func=_sx('augitem'),
                            args=[t.value, _slice_to_expr(t.slice), ast.Constant(value=_AUG[type(node.op)]),
                                  node.value], keywords=[])
            return ast.copy_location(ast.Expr(value=call), node)
        return node

    def visit_Delete(self, node):
        self.generic_visit(node)
        if len(node.targets) == 1 and isinstance(node.targets[0], ast.Subscript):
            t = node.targets[0]
            call = ast.Call(func=_sx('delitem'), args=[t.value, _slice_to_expr(t.slice)], keywords=[])
            return ast.copy_location(ast.Expr(value=call), node)
        return node


def instrument_source(source, filename, modname):
    tree = ast.parse(source, filename=filename)
    tree = Rewriter(modname).visit(tree)
    ast.fix_missing_locations(tree)
    return compile(tree, filename, 'exec', dont_inherit=True)


class _Loader(importlib.machinery.SourceFileLoader):

    def get_code(self, fullname):  # never use / write bytecode caches
        path = self.get_filename(fullname)
        with open(path, 'rb') as f:
            source = f.read()
        return instrument_source(source, path, fullname)

    def exec_module(self, module):
        from . import sx
        module.__dict__['_sx'] = sx
        module.__dict__.update(sx.BUILTIN_SHADOWS)
        STATS['modules'].append(module.__name__)
        super().exec_module(module)


def _excluded(fullname):
    parts = fullname.split('.')
    return 'tests' in parts or parts[-1] == 'conftest' or parts[-1] == 'version'


class _Finder(importlib.abc.MetaPathFinder):

    def find_spec(self, fullname, path=None, target=None):
        if fullname != 'pydl' and not fullname.startswith('pydl.'):
            return None
        if _excluded(fullname):
            return None
        rel = fullname.split('.')
        base = os.path.join(REPO, *rel)
        if os.path.isdir(base) and os.path.exists(os.path.join(base, '__init__.py')):
            fn = os.path.join(base, '__init__.py')
            return importlib.util.spec_from_file_location(fullname, fn, loader=_Loader(fullname, fn),
                                                          submodule_search_locations=[base])
        fn = base + '.py'
        if os.path.exists(fn):
            return importlib.util.spec_from_file_location(fullname, fn, loader=_Loader(fullname, fn))
        return None


_installed = None


def install():
    """Install the finder (idempotent) and drop any already-imported pydl modules."""
    global _installed
    sys.dont_write_bytecode = True
    if _installed is None:
        _installed = _Finder()
        sys.meta_path.insert(0, _installed)
    for k in [k for k in sys.modules if k == 'pydl' or k.startswith('pydl.')]:
        del sys.modules[k]
    if REPO not in sys.path:
        sys.path.insert(0, REPO)
    return _installed


def source_digest():
    """sha256 over the pydl sources that were instrumented (for evidence)."""
    import hashlib
    h = hashlib.sha256()
    for m in sorted(set(STATS['modules'])):
        mod = sys.modules.get(m)
        fn = getattr(mod, '__file__', None)
        if fn and os.path.exists(fn):
            with open(fn, 'rb') as f:
                h.update(f.read())
    return h.hexdigest()
