"""IEEE-754 binary64 scalars for the few obligations that are about rounding itself.

`F64` wraps a z3 floating-point term (round-to-nearest-even, as numpy and CPython use).  It supports
only what straight-line float code needs - + - * / abs neg, comparisons (IEEE: every comparison with
a NaN is False, != is True), `ite` without forking - and is carried through the real code inside
numpy object arrays like the other scalar classes.  Transcendental functions are *not* interpreted:
a harness supplies them as function symbols with the axioms it states."""
import numpy as np
import z3

from . import core
from .core import Sym, B

SORT = z3.Float64()
RM = z3.RNE()


def _t(x):
    if isinstance(x, F64):
        return x.t
    if isinstance(x, (bool, np.bool_)):
        return z3.FPVal(float(x), SORT)
    if isinstance(x, (int, float, np.integer, np.floating)):
        return z3.FPVal(float(x), SORT)
    if isinstance(x, core.R) and x.is_concrete():
        return z3.FPVal(float(x.v), SORT)
    if isinstance(x, core.BV):
        # numpy: sized integer next to a float64 -> float64 (correctly rounded conversion)
        t = z3.simplify(x.term)
        if z3.is_bv_value(t):
            return z3.FPVal(float(t.as_signed_long() if x.signed else t.as_long()), SORT)
        return z3.fpSignedToFP(RM, t, SORT) if x.signed else z3.fpUnsignedToFP(RM, t, SORT)
    if isinstance(x, core.Z) and x.is_concrete():
        return z3.FPVal(float(x.v), SORT)
    return None


class F64(Sym):
    __slots__ = ('t',)

    def __init__(self, t):
        self.t = t

    @staticmethod
    def lift(x):
        if isinstance(x, F64):
            return x
        t = _t(x)
        if t is None:
            raise core.Unsupported('cannot lift %s to a binary64 term' % type(x).__name__)
        return F64(t)

    @staticmethod
    def var(ctx, name):
        t = z3.FP(name, SORT)
        ctx.inputs[name] = t
        return F64(t)

    def z3(self):
        return self.t

    def is_concrete(self):
        return False

    def _bin(self, o, f, swap=False):
        ot = _t(o)
        if ot is None:
            return NotImplemented
        return F64(f(RM, ot, self.t) if swap else f(RM, self.t, ot))

    def __add__(self, o):
        return self._bin(o, z3.fpAdd)

    def __radd__(self, o):
        return self._bin(o, z3.fpAdd, True)

    def __sub__(self, o):
        return self._bin(o, z3.fpSub)

    def __rsub__(self, o):
        return self._bin(o, z3.fpSub, True)

    def __mul__(self, o):
        # x * 1.0 and x * -1.0 are exact in IEEE arithmetic: no multiplier circuit for them
        if isinstance(o, (int, float, np.integer, np.floating)) and not isinstance(o, (bool, np.bool_)):
            if float(o) == 1.0:
                return self
            if float(o) == -1.0:
                return F64(z3.fpNeg(self.t))
        return self._bin(o, z3.fpMul)

    def __rmul__(self, o):
        if isinstance(o, (int, float, np.integer, np.floating)) and not isinstance(o, (bool, np.bool_)) and abs(float(o)) == 1.0:
            return self.__mul__(o)
        return self._bin(o, z3.fpMul, True)

    def __truediv__(self, o):
        return self._bin(o, z3.fpDiv)

    def __rtruediv__(self, o):
        return self._bin(o, z3.fpDiv, True)

    def __neg__(self):
        return F64(z3.fpNeg(self.t))

    def __pos__(self):
        return self

    def __abs__(self):
        return F64(z3.fpAbs(self.t))

    def absolute(self):
        return F64(z3.fpAbs(self.t))

    def _cmp(self, o, f):
        ot = _t(o)
        if ot is None:
            return NotImplemented
        return B(f(self.t, ot))

    def __lt__(self, o):
        return self._cmp(o, z3.fpLT)

    def __le__(self, o):
        return self._cmp(o, z3.fpLEQ)

    def __gt__(self, o):
        return self._cmp(o, z3.fpGT)

    def __ge__(self, o):
        return self._cmp(o, z3.fpGEQ)

    def __eq__(self, o):
        return self._cmp(o, z3.fpEQ)

    def __ne__(self, o):
        ot = _t(o)
        if ot is None:
            return NotImplemented
        return B(z3.Not(z3.fpEQ(self.t, ot)))

    __hash__ = None

    def isnan(self):
        return B(z3.fpIsNaN(self.t))

    def __float__(self):
        raise core.Unsupported('a symbolic binary64 value was forced to a Python float')

    def __repr__(self):
        return 'F64(%s)' % (self.t,)


def fite(c, a, b):
    """IEEE select without forking"""
    c = B.lift(c)
    if isinstance(c.term, bool):
        return a if c.term else b
    return F64(z3.If(c.term, _t(a), _t(b)))


def clip(x, lo, hi):
    """numpy.clip for one binary64 value: NaN passes through (both comparisons are False)"""
    x = F64.lift(x)
    return fite(x < lo, F64.lift(lo), fite(x > hi, F64.lift(hi), x))


def from_bits(rec):
    """python float from the {'f64': '0x...'} form the explorer stores for binary64 inputs"""
    import struct
    return struct.unpack('<d', struct.pack('<Q', int(rec['f64'], 16)))[0]
