"""numpy facade used by the instrumented pydl modules (`import numpy as np` -> this proxy).

Outside an active exploration every attribute is numpy's own.  Inside one, constructors of float
arrays yield `dtype=object` arrays of exact rationals / symbolic reals (class R), sized-integer
conversions yield bit-vectors (class BV), and the handful of numpy C loops that cannot run on
object arrays are replaced by their documented definitions.  Anything not modelled that meets a
symbolic value raises `Unsupported` (-> the obligation is inconclusive), never a silent
concretisation.
"""
import builtins
import math
from fractions import Fraction
import numpy as _np
import z3

from . import core
from .core import R, Z, B, BV, Sym, Unsupported, NonFinite, ite


# ------------------------------------------------------------------------------------------
class NominalDtype(object):
    """what `x.dtype` answers for an object array holding symbolic scalars."""

    def __init__(self, real, rep=None):
        self.real = _np.dtype(real)
        self.symbolic = True
        self.rep = rep          # 'z': integers held as unbounded Z (no wrap-around modelled)

    def __eq__(self, other):
        if isinstance(other, NominalDtype):
            return self.real == other.real
        try:
            return self.real == _np.dtype(other)
        except TypeError:
            return False

    def __ne__(self, other):
        return not self.__eq__(other)

    def __hash__(self):
        return hash(self.real)

    def __getattr__(self, name):
        return getattr(self.real, name)

    def __repr__(self):
        return repr(self.real)

    def __str__(self):
        return str(self.real)


def _resolve_dtype(dtype):
    """-> (numpy dtype or None, symbolic flag)"""
    if dtype is None:
        return None, False
    if isinstance(dtype, NominalDtype):
        return dtype.real, True
    from . import sx
    if isinstance(dtype, sx._ShadowMeta):
        dtype = dtype._real
    return _np.dtype(dtype), False


def _mode():
    return getattr(core.ctx(), 'mode', 'exact')


def _exact():
    return core.active() and _mode() == 'exact'


def is_objarr(a):
    return type(a) is _np.ndarray and a.dtype == object


def _flat_elems(a):
    return a.ravel().tolist() if a.size else []


def nominal_dtype(a):
    kinds = set()
    bvdt = []
    for e in _flat_elems(a):
        if isinstance(e, R) or isinstance(e, (float, _np.floating, Fraction)):
            kinds.add('f')
        elif isinstance(e, BV):
            kinds.add('v')
            bvdt.append(e.dtype)
        elif isinstance(e, (B, bool, _np.bool_)):
            kinds.add('b')
        elif isinstance(e, (Z, int, _np.integer)):
            kinds.add('i')
            if isinstance(e, _np.integer):
                bvdt.append(e.dtype)
        else:
            from . import sstr
            if isinstance(e, sstr.SStr):
                kinds.add('S' if e.is_bytes else 'U')
            else:
                kinds.add('O')
    if not kinds or 'f' in kinds:
        return NominalDtype('f8')
    if 'O' in kinds:
        return _np.dtype(object)
    if 'v' in kinds:
        return NominalDtype(_np.result_type(*bvdt))
    if 'i' in kinds:
        return NominalDtype(_np.result_type(*bvdt) if bvdt else 'i8', rep='z')
    if 'S' in kinds:
        return NominalDtype('S1')
    if 'U' in kinds:
        return NominalDtype('U1')
    return NominalDtype('bool')


def _zero_of(dt, rep=None):
    if rep == 'z':
        return Z(0)
    if dt.kind == 'f':
        return R(Fraction(0))
    if dt.kind in 'iu':
        return BV(0, dt)
    if dt.kind == 'b':
        return False
    return 0


def _fill(shape, value):
    if isinstance(shape, (Z,)):
        shape = int(shape)
    elif isinstance(shape, (tuple, list)):
        shape = tuple(int(s) if isinstance(s, (Z, BV)) else s for s in shape)
    a = _np.empty(shape, dtype=object)
    a.fill(value)
    if isinstance(value, (R, BV, B)):
        # fill() stores the same (immutable) object everywhere: fine
        pass
    return a


def to_exact(a):
    """concrete float array/scalars -> object array of exact rationals."""
    a = _np.asarray(a)
    if a.dtype == object:
        return a
    out = _np.empty(a.shape, dtype=object)
    flat = out.reshape(-1)
    src = a.reshape(-1)
    for i in range(src.size):
        flat[i] = R(core._frac(src[i]))
    return out


def rarray(values):
    """harness helper: nested list of R / Fractions / numbers -> object array of R."""
    a = _np.empty(_np.shape(_np.array(values, dtype=object)), dtype=object)
    src = _np.array(values, dtype=object)
    for idx in _np.ndindex(a.shape):
        v = src[idx]
        a[idx] = v if isinstance(v, Sym) else R(core._frac(v))
    return a


def _convert_elem(e, dt):
    """numpy casting of one element to real dtype dt, symbolically."""
    k = dt.kind
    from . import sstr as _sstr
    if isinstance(e, _sstr.SStr):
        if k in 'iu':
            return _py_int_to_bv(_sstr.to_int(e), dt)
        if k == 'f':
            f = _sstr.to_float(e)
            return f if isinstance(f, Sym) else R(core._frac(f))
    if k == 'f':
        if isinstance(e, R):
            return e
        if isinstance(e, BV):
            return R.lift(e.as_Z())
        r = R.lift(e)
        if r is None:
            raise Unsupported('cannot convert %r to float' % (type(e),))
        return r
    if k in 'iu':
        if isinstance(e, BV):
            return e.cast(dt)
        if hasattr(e, 't') and not isinstance(e, (R, Z, B)):
            # binary64 -> sized integer: C truncation toward zero
            from . import fp
            t = z3.simplify(e.t)
            bits = dt.itemsize * 8
            if z3.is_fp_value(t):
                v = fp.from_bits(core._pyval(t))
                return BV(int(v) & ((1 << bits) - 1), dt)
            return BV(z3.fpToUBV(z3.RTZ(), t, z3.BitVecSort(bits)) if k == 'u' else z3.fpToSBV(z3.RTZ(), t, z3.BitVecSort(bits)), dt)
        if isinstance(e, B):
            e = e.as_int()
        if isinstance(e, R):
            if e.is_concrete():
                e = Z(int(e.v))       # C truncation toward zero
            else:
                e = e.trunc_int()
        if isinstance(e, (int, _np.integer, bool, _np.bool_)):
            return BV(int(e) & ((1 << (dt.itemsize * 8)) - 1), dt) if isinstance(e, _np.integer) \
                else _py_int_to_bv(Z(int(e)), dt)
        if isinstance(e, (float, _np.floating)):
            return BV(int(e), dt)
        if isinstance(e, Z):
            if getattr(core.ctx(), 'ints_as_Z', False) and not isinstance(e, core.ZB):
                # unbounded-int representation of a sized integer: range check, no wrap-around modelled
                info = _np.iinfo(dt)
                if not e.is_concrete() and builtins.bool(B(z3.Or(e.v < int(info.min), e.v > int(info.max)))):
                    raise OverflowError('Python integer out of bounds for %s' % dt)
                return e
            return _py_int_to_bv(e, dt)
        raise Unsupported('cannot convert %r to %s' % (type(e), dt))
    if k == 'b':
        return builtins.bool(B.lift(e))
    if k == 'O':
        return e
    raise Unsupported('conversion of symbolic value to dtype %s' % dt)


def _py_int_to_bv(z, dt):
    """numpy conversion of a *Python int* to a sized dtype: OverflowError when it does not fit."""
    info = _np.iinfo(dt)
    if isinstance(z, core.ZB):
        return z.to_bv(dt)
    if z.is_concrete():
        if not (info.min <= z.v <= info.max):
            raise OverflowError('Python integer %d out of bounds for %s' % (z.v, dt))
        return BV(z.v, dt)
    if builtins.bool(B(z3.Or(z.v < info.min, z.v > info.max))):
        raise OverflowError('Python integer out of bounds for %s' % dt)
    return BV(z3.Int2BV(z.v, dt.itemsize * 8), dt)


def _has_sym_content(obj):
    if isinstance(obj, Sym):
        return True
    if is_objarr(obj):
        return True
    if isinstance(obj, (list, tuple)):
        return any(_has_sym_content(e) for e in obj)
    return False


def _maybe_concrete_int(a):
    """object array whose elements are all concrete ints/BVs -> real int array (usable as index)."""
    return a


# ------------------------------------------------------------------------------------------ constructors
def zeros(shape, dtype=float, **kw):
    if not core.active():
        return _np.zeros(shape, dtype=dtype, **kw)
    dt, symbolic = _resolve_dtype(dtype)
    if dt is not None and dt.names is not None:
        return SymRec(shape, dt)
    if symbolic or (dt.kind == 'f' and _mode() == 'exact'):
        return _fill(shape, _zero_of(dt, getattr(dtype, 'rep', None)))
    if isinstance(shape, (Z, tuple, list)):
        shape = int(shape) if isinstance(shape, Z) else tuple(int(s) for s in shape)
    return _np.zeros(shape, dtype=dt, **kw)


def ones(shape, dtype=float, **kw):
    if not core.active():
        return _np.ones(shape, dtype=dtype, **kw)
    dt, symbolic = _resolve_dtype(dtype)
    if symbolic or (dt.kind == 'f' and _mode() == 'exact'):
        if dt.kind in 'iu' and getattr(dtype, 'rep', None) == 'z':
            one = core.Z(1)        # integers held as unbounded Z (nominal dtype), as zeros() does
        else:
            one = R(Fraction(1)) if dt.kind == 'f' else (BV(1, dt) if dt.kind in 'iu' else True)
        return _fill(shape, one)
    if isinstance(shape, (Z, tuple, list)):
        shape = int(shape) if isinstance(shape, Z) else tuple(int(s) for s in shape)
    return _np.ones(shape, dtype=dt, **kw)


def empty(shape, dtype=float, **kw):
    if not core.active():
        return _np.empty(shape, dtype=dtype, **kw)
    return zeros(shape, dtype=dtype)


def arange(*args, **kw):
    if not core.active():
        return _np.arange(*args, **kw)
    dtype = kw.pop('dtype', None)
    dt, symbolic = _resolve_dtype(dtype)
    cargs = []
    symreal = False
    for a in args:
        if isinstance(a, (Z, BV)):
            a = int(a)
        elif isinstance(a, R):
            if a.is_concrete() and a.v.denominator == 1:
                a = int(a.v)
            else:
                symreal = True
        cargs.append(a)
    if symreal:
        raise Unsupported('arange with a symbolic real bound')
    base = _np.arange(*cargs, **kw) if dt is None else _np.arange(*cargs, dtype=dt, **kw)
    if (symbolic and base.dtype.kind == 'f') or (base.dtype.kind == 'f' and _mode() == 'exact'):
        return to_exact(base)
    return base


def _build_object(obj):
    """nested python lists / arrays with symbolic content -> object ndarray."""
    if isinstance(obj, _np.ndarray):
        return obj if obj.dtype == object else obj.astype(object)
    if isinstance(obj, (list, tuple)):
        subs = [_build_object(e) for e in obj]
        if not subs:
            return _np.empty((0,), dtype=object)
        shp = subs[0].shape
        out = _np.empty((len(subs),) + shp, dtype=object)
        for i, s in enumerate(subs):
            if s.shape != shp:
                raise ValueError('setting an array element with a sequence (inhomogeneous shape)')
            out[i] = s if s.ndim else s.item() if not isinstance(s, _np.ndarray) else s[()]
        return out
    out = _np.empty((), dtype=object)
    out[()] = obj
    return out


def _cast_objarr(a, dt):
    out = _np.empty(a.shape, dtype=object)
    of = out.reshape(-1)
    af = a.reshape(-1)
    for i in range(af.size):
        of[i] = _convert_elem(af[i], dt)
    if dt.kind == 'b':
        return out.astype(bool)
    return out


def array(obj, dtype=None, copy=True, ndmin=0, **kw):
    if not core.active():
        return _np.array(obj, dtype=dtype, copy=copy, ndmin=ndmin, **kw)
    dt, symbolic = _resolve_dtype(dtype)
    if isinstance(obj, SymRec):
        return obj.copy()
    if _has_sym_content(obj):
        a = _build_object(obj)
        if a is obj:
            a = a.copy()
        if dt is not None and dt.kind != 'O':
            a = _cast_objarr(a, dt)
        elif dt is None and not isinstance(obj, _np.ndarray):
            # numpy.array over Python ints gives an int64 array: remember that on the elements (core.ZA)
            af = a.reshape(-1)
            if af.size and all(type(e) is core.Z or (isinstance(e, int) and not isinstance(e, builtins.bool)) for e in af):
                for i in range(af.size):
                    af[i] = core.ZA(af[i].v if type(af[i]) is core.Z else int(af[i]))
    else:
        a = _np.array(obj, dtype=dt, copy=copy, **kw) if dt is not None else _np.array(obj, copy=copy, **kw)
        if a.dtype.kind == 'f' and _mode() == 'exact':
            a = to_exact(a)
        elif symbolic and a.dtype.kind in 'iu':
            a = _cast_objarr(a.astype(object), dt)
    while a.ndim < ndmin:
        a = a[_np.newaxis]
    return a


def asarray(obj, dtype=None, **kw):
    if not core.active():
        return _np.asarray(obj, dtype=dtype, **kw)
    if is_objarr(obj) and dtype is None:
        return obj
    return array(obj, dtype=dtype, copy=False)


# ------------------------------------------------------------------------------------------ elementwise
def _elementwise(name, realf, x, symf):
    if isinstance(x, Sym):
        return symf(x)
    if is_objarr(x):
        out = _np.empty(x.shape, dtype=object)
        of = out.reshape(-1)
        xf = x.reshape(-1)
        for i in range(xf.size):
            e = xf[i]
            of[i] = symf(e) if isinstance(e, Sym) else symf(R.lift(e))
        return out
    return realf(x)


def _unary(name, method):
    realf = getattr(_np, name)

    def f(x, *a, **k):
        if not core.active():
            return realf(x, *a, **k)
        return _elementwise(name, realf, x, lambda e: getattr(e if isinstance(e, R) or hasattr(e, 't') else R.lift(e), method)()
                            if not isinstance(e, BV) else _bv_unary(e, method))
    f.__name__ = name
    return f


def _bv_unary(e, method):
    if method in ('floor', 'ceil'):
        return e
    if method == 'absolute':
        if e.signed:
            return BV(z3.If(e.term < 0, -e.term, e.term), e.dtype)
        return e
    raise Unsupported('%s of a symbolic sized integer' % method)


floor = _unary('floor', 'floor')
ceil = _unary('ceil', 'ceil')
sqrt = _unary('sqrt', 'sqrt')
absolute = _unary('absolute', 'absolute')
fabs = _unary('fabs', 'absolute')


def isfinite(x):
    if not core.active():
        return _np.isfinite(x)
    if isinstance(x, Sym):
        return True
    if is_objarr(x):
        return _np.ones(x.shape, dtype=bool)
    return _np.isfinite(x)


def isnan(x):
    if not core.active():
        return _np.isnan(x)
    if isinstance(x, Sym):
        return False
    if is_objarr(x):
        return _np.zeros(x.shape, dtype=bool)
    return _np.isnan(x)


def _transcendental(name):
    realf = getattr(_np, name)

    def f(x, *a, **k):
        if not core.active():
            return realf(x, *a, **k)
        hook = TRANSCENDENTAL_HOOKS.get(name)
        if hook is not None:
            return hook(x)
        if isinstance(x, Sym) or is_objarr(x):
            # concrete rationals: evaluate in IEEE double (recorded as 'mixed' step), symbolic: refuse
            def conv(e):
                if isinstance(e, R) and e.is_concrete():
                    return float(e.v)
                if isinstance(e, (int, float, _np.number)):
                    return float(e)
                raise Unsupported('%s of a symbolic value' % name)
            if isinstance(x, Sym):
                return R(core._frac(realf(conv(x))))
            vals = _np.array([conv(e) for e in _flat_elems(x)], dtype=float).reshape(x.shape)
            core.ctx().notes.append('%s evaluated in IEEE double on concrete data' % name) \
                if len(core.ctx().notes) < 20 else None
            return to_exact(realf(vals))
        return realf(x, *a, **k)
    f.__name__ = name
    return f


TRANSCENDENTAL_HOOKS = {}
_TRANS = ['sin', 'cos', 'tan', 'arcsin', 'arccos', 'arctan', 'log', 'log10', 'exp', 'deg2rad',
          'rad2deg', 'radians', 'degrees', 'arcsinh']


def arctan2(y, x):
    if core.active() and (_has_sym_content(y) or _has_sym_content(x)):
        raise Unsupported('arctan2 of symbolic values')
    return _np.arctan2(y, x)


def clip(a, a_min=None, a_max=None, **kw):
    """numpy.clip on symbolic content: IEEE select for binary64 terms, path decisions for reals"""
    if not (core.active() and (isinstance(a, Sym) or (is_objarr(a) and _has_sym_content(a)))) or kw or a_min is None or a_max is None:
        return _np.clip(a, a_min, a_max, **kw)
    from . import fp

    def one(e):
        if isinstance(e, fp.F64):
            return fp.clip(e, a_min, a_max)
        # reals: decide the two comparisons on the path (as numpy's object loop would); a select term
        # inside later non-linear queries cost nlsat far more than the two extra decisions
        e = e if isinstance(e, Sym) else R.lift(e)
        if builtins.bool(e < a_min):
            return R.lift(a_min)
        if builtins.bool(e > a_max):
            return R.lift(a_max)
        return e
    return _elementwise('clip', None, a, one)


def minimum(a, b):
    if core.active() and (_has_sym_content(a) or _has_sym_content(b)):
        return _binary_elementwise(a, b, lambda p, q: ite(p < q, p, q))
    return _np.minimum(a, b)


def maximum(a, b):
    if core.active() and (_has_sym_content(a) or _has_sym_content(b)):
        return _binary_elementwise(a, b, lambda p, q: ite(p > q, p, q))
    return _np.maximum(a, b)


def _binary_elementwise(a, b, f):
    if isinstance(a, Sym) and isinstance(b, Sym):
        return f(a, b)
    aa = a if isinstance(a, _np.ndarray) else _build_object(a) if isinstance(a, (list, tuple, Sym)) else _np.asarray(a)
    bb = b if isinstance(b, _np.ndarray) else _build_object(b) if isinstance(b, (list, tuple, Sym)) else _np.asarray(b)
    bc = _np.broadcast(aa, bb)
    out = _np.empty(bc.shape, dtype=object)
    of = out.reshape(-1)
    for i, (p, q) in enumerate(bc):
        p = p if isinstance(p, Sym) else (R.lift(p) if not isinstance(p, (int, _np.integer)) else p)
        q = q if isinstance(q, Sym) else (R.lift(q) if not isinstance(q, (int, _np.integer)) else q)
        of[i] = f(p, q)
    if out.ndim == 0:
        return out[()]
    return out


def fmod(a, b):
    if core.active() and (_has_sym_content(a) or _has_sym_content(b)):
        # C fmod: result has the sign of a;  a - trunc(a/b)*b
        def f(p, q):
            p, q = R.lift(p), R.lift(q)
            t = p / q
            tr = ite(t >= 0, t.floor(), t.ceil())
            return p - tr * q
        return _binary_elementwise(a, b, f)
    return _np.fmod(a, b)


def where(cond, *args):
    if not core.active():
        return _np.where(cond, *args)
    if is_objarr(cond):
        if not args:
            cond = _np.array([builtins.bool(B.lift(c)) for c in _flat_elems(cond)], dtype=bool).reshape(cond.shape)
            return _np.where(cond)
        a, b = args
        ca, aa, bb = _np.broadcast_arrays(cond, _np.asarray(a, dtype=object) if not isinstance(a, _np.ndarray) else a,
                                          _np.asarray(b, dtype=object) if not isinstance(b, _np.ndarray) else b)
        out = _np.empty(ca.shape, dtype=object)
        for idx in _np.ndindex(ca.shape):
            out[idx] = ite(B.lift(ca[idx]), aa[idx], bb[idx])
        return out
    if isinstance(cond, B):
        if not args:
            raise Unsupported('where(B)')
        return ite(cond, args[0], args[1])
    return _np.where(cond, *args)


def interp(x, xp, fp, left=None, right=None, period=None):
    if not core.active() or not (_has_sym_content(x) or _has_sym_content(xp) or _has_sym_content(fp)):
        return _np.interp(x, xp, fp, left=left, right=right, period=period)
    if period is not None:
        raise Unsupported('interp(period=)')
    xpl = [e for e in _flat_elems(_np.asarray(xp, dtype=object) if not isinstance(xp, _np.ndarray) else xp)]
    fpl = [e for e in _flat_elems(_np.asarray(fp, dtype=object) if not isinstance(fp, _np.ndarray) else fp)]
    if len(xpl) != len(fpl):
        raise ValueError('fp and xp are not of the same length.')
    if len(xpl) == 0:
        raise ValueError('array of sample points is empty')
    xpl = [e if isinstance(e, Sym) else R.lift(e) for e in xpl]
    fpl = [e if isinstance(e, Sym) else R.lift(e) for e in fpl]
    lft = fpl[0] if left is None else left
    rgt = fpl[-1] if right is None else right

    def one(xv):
        xv = xv if isinstance(xv, Sym) else R.lift(xv)
        # numpy: binary search for j with xp[j] <= x < xp[j+1]
        if xv < xpl[0]:
            return lft
        if xv > xpl[-1]:
            return rgt
        n = len(xpl)
        if n == 1:
            return fpl[0]
        j = 0
        while j < n - 1 and not (xv < xpl[j + 1]):
            j += 1
        if j == n - 1:
            return fpl[-1]
        if xv == xpl[j]:
            return fpl[j]
        slope = (fpl[j + 1] - fpl[j]) / (xpl[j + 1] - xpl[j])
        return slope * (xv - xpl[j]) + fpl[j]

    if isinstance(x, _np.ndarray):
        out = _np.empty(x.shape, dtype=object)
        of = out.reshape(-1)
        xf = x.reshape(-1)
        for i in range(xf.size):
            of[i] = one(xf[i])
        return out
    if isinstance(x, (list, tuple)):
        return _build_object([one(e) for e in x])
    return one(x)


def _sorted_list(vals):
    """insertion sort with symbolic comparisons (forks)."""
    out = []
    for v in vals:
        k = len(out)
        while k > 0 and builtins.bool(v < out[k - 1]):
            k -= 1
        out.insert(k, v)
    return out


def kth_smallest(vals, k):
    """order statistic as a *relation*: a fresh real m with  m in vals,  #(v < m) <= k,
    #(v <= m) >= k+1.  No forks; concrete inputs are sorted directly."""
    vals = [v if isinstance(v, Sym) else R.lift(v) for v in vals]
    if all(isinstance(v, R) and v.is_concrete() for v in vals):
        return sorted(vals, key=lambda r: r.v)[k]
    c = core.ctx()
    m = c.fresh_real('ord')
    terms = [core.zt(v) for v in vals]
    c.add(z3.Or([m == t for t in terms]))
    c.add(z3.Sum([z3.If(t < m, 1, 0) for t in terms]) <= k)
    c.add(z3.Sum([z3.If(t <= m, 1, 0) for t in terms]) >= k + 1)
    return R(m)


def median(a, axis=None, **kw):
    if not core.active() or not _has_sym_content(a):
        return _np.median(a, axis=axis, **kw)
    a = a if isinstance(a, _np.ndarray) else _build_object(a)
    if axis is None:
        vals = _flat_elems(a)
        n = len(vals)
        if n == 0:
            raise NonFinite('median of empty array')
        if n % 2:
            return kth_smallest(vals, n // 2)
        return (kth_smallest(vals, n // 2 - 1) + kth_smallest(vals, n // 2)) / 2
    moved = _np.moveaxis(a, axis, -1)
    out = _np.empty(moved.shape[:-1], dtype=object)
    for idx in _np.ndindex(out.shape):
        out[idx] = median(moved[idx])
    return out


def medfilt(volume, kernel_size=None):
    """scipy.signal.medfilt by its definition: zero-padded running median (odd kernel)."""
    import scipy.signal
    if not core.active() or not _has_sym_content(volume):
        return scipy.signal.medfilt(volume, kernel_size)
    a = volume
    if kernel_size is None:
        kernel_size = 3
    ks = [int(kernel_size)] * a.ndim if _np.ndim(kernel_size) == 0 else [int(k) for k in kernel_size]
    for k in ks:
        if k % 2 != 1:
            raise ValueError('Each element of kernel_size should be odd.')
    out = _np.empty(a.shape, dtype=object)
    zero = R(Fraction(0))
    for idx in _np.ndindex(a.shape):
        vals = []
        ranges = [range(i - k // 2, i + k // 2 + 1) for i, k in zip(idx, ks)]
        for off in _np.ndindex(*[len(r) for r in ranges]):
            pos = tuple(r[o] for r, o in zip(ranges, off))
            if all(0 <= p < s for p, s in zip(pos, a.shape)):
                vals.append(a[pos])
            else:
                vals.append(zero)
        out[idx] = kth_smallest(vals, len(vals) // 2)
    return out


def medfilt2d(input, kernel_size=3):
    import scipy.signal
    if not core.active() or not _has_sym_content(input):
        return scipy.signal.medfilt2d(input, kernel_size)
    return medfilt(input, kernel_size)


def polyval(p, x):
    if core.active() and (_has_sym_content(p) or _has_sym_content(x)):
        y = 0
        for c in (p.tolist() if isinstance(p, _np.ndarray) else list(p)):
            y = y * x + c
        return y
    return _np.polyval(p, x)


def eye(N, M=None, k=0, dtype=float, **kw):
    if not core.active():
        return _np.eye(N, M, k, dtype=dtype, **kw)
    dt, symbolic = _resolve_dtype(dtype)
    r = _np.eye(N, M, k, dtype=dt, **kw)
    if r.dtype.kind == 'f' and (symbolic or _mode() == 'exact'):
        return to_exact(r)
    return r


def _passthrough_float(name):
    """numpy constructors whose float results must become exact in exact mode."""
    realf = getattr(_np, name)

    def f(*a, **k):
        r = realf(*a, **k)
        if _exact() and isinstance(r, _np.ndarray) and r.dtype.kind == 'f':
            return to_exact(r)
        return r
    f.__name__ = name
    return f


def std(a, *args, **kw):
    if core.active() and is_objarr(a):
        return var(a, *args, **kw).sqrt()
    return _np.std(a, *args, **kw)


def var(a, axis=None, ddof=0, **kw):
    if core.active() and is_objarr(a):
        if axis is not None:
            raise Unsupported('var(axis=)')
        vals = _flat_elems(a)
        n = len(vals)
        if n == 0:
            raise NonFinite('variance of empty array')
        m = builtins.sum(vals[1:], vals[0]) / n
        return builtins.sum([(v - m) * (v - m) for v in vals[1:]], (vals[0] - m) * (vals[0] - m)) / (n - ddof)
    return _np.var(a, axis=axis, ddof=ddof, **kw)


def mean(a, axis=None, **kw):
    if core.active() and is_objarr(a) and axis is None:
        vals = _flat_elems(a)
        if not vals:
            raise NonFinite('mean of empty array')
        return builtins.sum(vals[1:], vals[0]) / len(vals)
    return _np.mean(a, axis=axis, **kw)


# scalar type constructors: np.uint64(x), np.float32(x) ...
_SCALAR_TYPES = ('int8', 'int16', 'int32', 'int64', 'uint8', 'uint16', 'uint32', 'uint64',
                 'float32', 'float64', 'double', 'float16')


def scalar_ctor(name, x=0, *a):
    real = getattr(_np, name)
    if not core.active():
        return real(x, *a)
    dt = _np.dtype(real)
    if isinstance(x, Sym):
        return _convert_elem(x, dt)
    if is_objarr(x):
        return _cast_objarr(x, dt)
    from . import sstr
    if isinstance(x, sstr.SStr):
        if dt.kind == 'f':
            return sstr.to_float(x)
        return _py_int_to_bv(sstr.to_int(x), dt)
    r = real(x, *a)
    if dt.kind == 'f' and _mode() == 'exact':
        return R(core._frac(r))
    return r


# ------------------------------------------------------------------------------------------ ndarray methods
def _m_astype(a, dtype, **kw):
    dt, symbolic = _resolve_dtype(dtype)
    if dt.kind == 'O':
        return a.copy()
    out = _cast_objarr(a, dt)
    return out


def _m_min(a, axis=None, **kw):
    if axis is not None or a.size == 0:
        return a.min(axis=axis, **kw)
    vals = _flat_elems(a)
    best = vals[0]
    for v in vals[1:]:
        best = ite(v < best, v, best)
    return best


def _m_max(a, axis=None, **kw):
    if axis is not None or a.size == 0:
        return a.max(axis=axis, **kw)
    vals = _flat_elems(a)
    best = vals[0]
    for v in vals[1:]:
        best = ite(v > best, v, best)
    return best


def _m_argsort(a, axis=-1, kind=None, **kw):
    """stable insertion sort on symbolic comparisons.  numpy's default (introsort) is not stable;
    for elements that compare equal the model takes the stable order, which is what numpy's
    small-array insertion sort also produces (n <= 16)."""
    if a.ndim != 1:
        raise Unsupported('argsort of a symbolic %d-d array' % a.ndim)
    vals = a.tolist()
    order = []
    for i, v in enumerate(vals):
        k = len(order)
        while k > 0 and builtins.bool(v < vals[order[k - 1]]):
            k -= 1
        order.insert(k, i)
    return _np.array(order, dtype=_np.intp)


def _m_argmin(a, axis=None, **kw):
    if axis is not None:
        raise Unsupported('argmin(axis=)')
    vals = _flat_elems(a)
    bi = 0
    for i in range(1, len(vals)):
        if vals[i] < vals[bi]:
            bi = i
    return bi


def _m_argmax(a, axis=None, **kw):
    if axis is not None:
        raise Unsupported('argmax(axis=)')
    vals = _flat_elems(a)
    bi = 0
    for i in range(1, len(vals)):
        if vals[i] > vals[bi]:
            bi = i
    return bi


def _m_var(a, *args, **kw):
    return var(a, *args, **kw)


def _m_std(a, *args, **kw):
    return std(a, *args, **kw)


def _m_mean(a, *args, **kw):
    return mean(a, *args, **kw)


def _m_any(a, *args, **kw):
    if args or kw:
        return a.any(*args, **kw)
    for e in _flat_elems(a):
        if B.lift(e):
            return True
    return False


def _m_all(a, *args, **kw):
    if args or kw:
        return a.all(*args, **kw)
    for e in _flat_elems(a):
        if not B.lift(e):
            return False
    return True


def _m_nonzero(a):
    mask = _np.array([builtins.bool(B.lift(e)) for e in _flat_elems(a)], dtype=bool).reshape(a.shape)
    return mask.nonzero()


def _m_sum(a, axis=None, **kw):
    if axis is None and not kw:
        vals = _flat_elems(a)
        if not vals:
            return 0
        tot = vals[0]
        if isinstance(tot, B):
            tot = tot.as_int()
        for v in vals[1:]:
            tot = tot + (v.as_int() if isinstance(v, B) else v)
        return tot
    r = a.sum(axis=axis, **kw)
    if not isinstance(r, _np.ndarray):
        out = _np.empty((), dtype=object)
        out[()] = r
        return out
    return r


ARRAY_METHODS = {'astype': _m_astype, 'min': _m_min, 'max': _m_max, 'argsort': _m_argsort,
                 'argmin': _m_argmin, 'argmax': _m_argmax, 'var': _m_var, 'std': _m_std,
                 'mean': _m_mean, 'any': _m_any, 'all': _m_all, 'nonzero': _m_nonzero, 'sum': _m_sum}


def _c_astype(a, dtype, **kw):
    dt, symbolic = _resolve_dtype(dtype)
    r = a.astype(dt, **kw)
    if (symbolic or _mode() == 'exact') and r.dtype.kind == 'f':
        return to_exact(r)
    if symbolic and r.dtype.kind in 'iu':
        return _cast_objarr(r.astype(object), dt)
    return r


CONCRETE_ARRAY_METHODS = {'astype': _c_astype}


def index_array(idx):
    """object array of (symbolic) integers used as an index -> concrete integer array (forks)."""
    vals = []
    for e in _flat_elems(idx):
        if isinstance(e, (Z, BV)):
            vals.append(int(e))
        elif isinstance(e, R):
            if e.is_concrete() and e.v.denominator == 1:
                raise IndexError('arrays used as indices must be of integer (or boolean) type')
            raise IndexError('arrays used as indices must be of integer (or boolean) type')
        elif isinstance(e, (B, bool, _np.bool_)):
            return _np.array([builtins.bool(B.lift(x)) for x in _flat_elems(idx)], dtype=bool).reshape(idx.shape)
        else:
            vals.append(int(e))
    return _np.array(vals, dtype=_np.intp).reshape(idx.shape)


def coerce_for_store(arr, idx, val):
    """numpy casts on assignment to the destination dtype; an object array has none, so follow the
    nominal dtype of what it already holds (sized ints <- reals: C truncation; reals <- ints)."""
    if arr.size == 0:
        return val
    sample = arr.flat[0]
    if isinstance(sample, Z):
        def convz(e):
            if isinstance(e, R):
                return e.trunc_int()
            if isinstance(e, (float, _np.floating)):
                return Z(int(e))
            return e
        if isinstance(val, _np.ndarray) and val.dtype == object:
            if not any(isinstance(e, (R, float)) for e in _flat_elems(val)):
                return val
            out = _np.empty(val.shape, dtype=object)
            of = out.reshape(-1)
            vf = val.reshape(-1)
            for i in range(vf.size):
                of[i] = convz(vf[i])
            return out
        return convz(val)
    if isinstance(sample, BV):
        dt = sample.dtype

        def conv(e):
            if isinstance(e, BV):
                return e.cast(dt)
            return _convert_elem(e, dt)
        if isinstance(val, Sym) or not isinstance(val, (_np.ndarray, list, tuple)):
            if isinstance(val, (R, Z, B, BV, int, float, _np.number)):
                return conv(val)
            return val
        v = val if isinstance(val, _np.ndarray) else _build_object(list(val))
        if v.dtype == object and not any(isinstance(e, (R, Z, B)) or (isinstance(e, BV) and e.dtype != dt)
                                         for e in _flat_elems(v)):
            return v
        out = _np.empty(v.shape, dtype=object)
        of = out.reshape(-1)
        vf = v.reshape(-1)
        for i in range(vf.size):
            of[i] = conv(vf[i])
        return out
    return val


# ------------------------------------------------------------------------------------------ record stand-in
class SymRec(object):
    """stand-in for numpy.recarray / structured arrays whose fields may hold symbolic scalars."""

    def __init__(self, shape, dtype):
        if isinstance(shape, int):
            shape = (shape,)
        object.__setattr__(self, '_shape', tuple(shape))
        dt = _np.dtype(dtype) if not isinstance(dtype, _np.dtype) else dtype
        object.__setattr__(self, '_dtype', dt)
        fields = {}
        for name in dt.names:
            fdt = dt.fields[name][0]
            sub = fdt.shape
            base = fdt.base
            fields[name] = _fill(tuple(shape) + tuple(sub), _zero_of(base) if base.kind in 'fiub' else (_np.bytes_(b'') if base.kind == 'S' else ''))
        object.__setattr__(self, '_fields', fields)

    @property
    def shape(self):
        return self._shape

    @property
    def size(self):
        return int(_np.prod(self._shape))

    @property
    def dtype(self):
        return self._dtype

    def __len__(self):
        return self._shape[0]

    def _store(self, name, val):
        fdt = self._dtype.fields[name][0]
        base = fdt.base
        tgt = self._fields[name]
        if tgt.size == 0 and _np.size(val) == 0:
            # nothing to store, but numpy still applies its broadcasting rule: (0,) into (0, 3) is a ValueError
            _np.broadcast_to(_np.empty(_np.shape(val)), tgt.shape)
            return
        if isinstance(val, _np.ndarray) or isinstance(val, (list, tuple)):
            v = val if isinstance(val, _np.ndarray) else _build_object(list(val))
            v = v.astype(object) if v.dtype != object else v
            if base.kind in 'fiub':
                v = _cast_objarr(v, base)
            else:
                from . import sstr
                v = sstr.cast_str_array(v, base)
            tgt[...] = _np.broadcast_to(v, tgt.shape)
        else:
            if base.kind in 'fiub':
                tgt[...] = _convert_elem(val, base)
            else:
                from . import sstr
                tgt[...] = sstr.cast_str_elem(val, base)

    def __getattr__(self, name):
        f = object.__getattribute__(self, '_fields')
        if name in f:
            return f[name]
        raise AttributeError(name)

    def __setattr__(self, name, val):
        if name in self._fields:
            self._store(name, val)
        else:
            object.__setattr__(self, name, val)

    def __getitem__(self, key):
        if isinstance(key, builtins.str):
            return self._fields[key]
        from . import sstr
        if isinstance(key, sstr.SStr):
            return self._fields[key.concrete()]
        out = SymRec.__new__(SymRec)
        sub = {k: v[key] for k, v in self._fields.items()}
        first = next(iter(sub.values()))
        fdt0 = self._dtype.fields[self._dtype.names[0]][0]
        nsub = len(fdt0.shape)
        shp = first.shape[:first.ndim - nsub] if isinstance(first, _np.ndarray) else ()
        object.__setattr__(out, '_shape', tuple(shp))
        object.__setattr__(out, '_dtype', self._dtype)
        object.__setattr__(out, '_fields', sub)
        object.__setattr__(out, '_scalar', not isinstance(first, _np.ndarray) or first.ndim == nsub)
        return out

    def __setitem__(self, key, val):
        if isinstance(key, builtins.str):
            self._store(key, val)
            return
        raise Unsupported('row assignment into a record stand-in')

    def view(self, *a, **k):
        return self

    @property
    def ndim(self):
        return len(self._shape)

    def copy(self):
        out = SymRec.__new__(SymRec)
        object.__setattr__(out, '_shape', self._shape)
        object.__setattr__(out, '_dtype', self._dtype)
        object.__setattr__(out, '_fields', {k: v.copy() for k, v in self._fields.items()})
        return out


def recarray(shape, dtype=None, **kw):
    if not core.active():
        return _np.recarray(shape, dtype=dtype, **kw)
    return SymRec(shape, dtype)


# ------------------------------------------------------------------------------------------ linalg stubs
def exact_solve(a, b):
    """contract stub for LAPACK solve: exact Gaussian elimination over the rationals; the matrix
    must be concrete, the right-hand side may be symbolic (solution is linear in it)."""
    A = [[R.lift(e) if not isinstance(e, R) else e for e in row] for row in _np.asarray(a, dtype=object).tolist()]
    n = len(A)
    bb = _np.asarray(b, dtype=object)
    vec = bb.ndim == 1
    Bm = [[bb[i]] if vec else list(bb[i]) for i in range(n)]
    Bm = [[e if isinstance(e, Sym) else R.lift(e) for e in row] for row in Bm]
    for row in A:
        for e in row:
            if not e.is_concrete():
                raise Unsupported('linear solve with a symbolic matrix')
    M = [[e.v for e in row] for row in A]
    for c in range(n):
        p = None
        for r in range(c, n):
            if M[r][c] != 0:
                p = r
                break
        if p is None:
            raise _np.linalg.LinAlgError('Singular matrix')
        M[c], M[p] = M[p], M[c]
        Bm[c], Bm[p] = Bm[p], Bm[c]
        piv = M[c][c]
        for r in range(n):
            if r != c and M[r][c] != 0:
                f = M[r][c] / piv
                M[r] = [x - f * y for x, y in zip(M[r], M[c])]
                Bm[r] = [x - y * f for x, y in zip(Bm[r], Bm[c])]
    sol = [[Bm[i][j] / M[i][i] for j in range(len(Bm[i]))] for i in range(n)]
    out = _build_object([row[0] for row in sol] if vec else sol)
    return out


def spd_status(A):
    """leading principal minors of a concrete symmetric rational matrix all > 0 ?"""
    n = len(A)
    M = [row[:] for row in A]
    for c in range(n):
        if M[c][c] <= 0:
            return False
        for r in range(c + 1, n):
            f = M[r][c] / M[c][c]
            M[r] = [x - f * y for x, y in zip(M[r], M[c])]
    return True


# ------------------------------------------------------------------------------------------ the proxy
class _Proxy(object):
    def __init__(self, real, overrides, sub=None):
        object.__setattr__(self, '_real', real)
        object.__setattr__(self, '_over', overrides)
        object.__setattr__(self, '_sub', sub or {})

    def __getattr__(self, name):
        o = object.__getattribute__(self, '_over')
        if name in o:
            return o[name]
        s = object.__getattribute__(self, '_sub')
        if name in s:
            return s[name]
        return getattr(object.__getattribute__(self, '_real'), name)

    def __repr__(self):
        return '<pathsym proxy of %r>' % (object.__getattribute__(self, '_real'),)


_OVER = {
    'zeros': zeros, 'ones': ones, 'empty': empty, 'arange': arange, 'array': array, 'asarray': asarray,
    'floor': floor, 'ceil': ceil, 'sqrt': sqrt, 'absolute': absolute, 'abs': absolute, 'fabs': fabs,
    'isfinite': isfinite, 'isnan': isnan, 'arctan2': arctan2, 'minimum': minimum, 'maximum': maximum,
    'fmod': fmod, 'where': where, 'interp': interp, 'median': median, 'polyval': polyval,
    'std': std, 'var': var, 'mean': mean, 'eye': eye, 'clip': clip,
}
for _n in _TRANS:
    _OVER[_n] = _transcendental(_n)

linalg = _Proxy(_np.linalg, {})
np_proxy = _Proxy(_np, _OVER, {'linalg': linalg})


def install_imports():
    from . import sx
    sx.IMPORTS['numpy'] = np_proxy
    sx.IMPORTS['numpy.linalg'] = linalg
    sx.IMPORTS[('scipy.signal', 'medfilt')] = medfilt
    sx.IMPORTS[('scipy.signal', 'medfilt2d')] = medfilt2d
    install_linalg()


# ------------------------------------------------------------------------------------------ scipy.linalg stubs
def _band_to_dense(ab, lower):
    bw, n = ab.shape
    A = [[R(Fraction(0)) for _ in range(n)] for _ in range(n)]
    for i in range(bw):
        for j in range(n):
            if lower:
                r, c = j + i, j
            else:
                r, c = j - (bw - 1 - i), j
            if 0 <= r < n and 0 <= c < n:
                v = ab[i, j]
                v = v if isinstance(v, R) else R.lift(v)
                A[r][c] = v
                A[c][r] = v
    return A


def _is_spd(A):
    """leading principal minors > 0, by elimination in exact arithmetic (forks when symbolic)."""
    n = len(A)
    M = [row[:] for row in A]
    for c in range(n):
        if not builtins.bool(M[c][c] > 0):
            return False
        for r in range(c + 1, n):
            if isinstance(M[r][c], R) and M[r][c].is_concrete() and M[r][c].v == 0:
                continue
            f = M[r][c] / M[c][c]
            M[r] = [x - f * y for x, y in zip(M[r], M[c])]
    return True


def cholesky_banded(ab, overwrite_ab=False, lower=False, check_finite=True):
    """contract stub for scipy.linalg.cholesky_banded (LAPACK pbtrf): raises LinAlgError iff the
    matrix is not positive definite; the returned 'factor' is only ever consumed by
    cho_solve_banded below, whose contract is 'returns the solution of A x = b'."""
    import scipy.linalg
    if not core.active() or not is_objarr(ab):
        return scipy.linalg.cholesky_banded(ab, overwrite_ab=overwrite_ab, lower=lower, check_finite=check_finite)
    A = _band_to_dense(ab, lower)
    if not _is_spd(A):
        raise _np.linalg.LinAlgError('%d-th leading minor not positive definite' % 0)
    return ab.copy()


def cho_solve_banded(cb_and_lower, b, overwrite_b=False, check_finite=True):
    import scipy.linalg
    cb, lower = cb_and_lower
    if not core.active() or not (is_objarr(cb) or is_objarr(b)):
        return scipy.linalg.cho_solve_banded(cb_and_lower, b, overwrite_b=overwrite_b, check_finite=check_finite)
    A = _band_to_dense(cb if is_objarr(cb) else to_exact(cb), lower)
    n = len(A)
    bb = b if is_objarr(b) else to_exact(b)
    rhs = [bb[i] if isinstance(bb[i], Sym) else R.lift(bb[i]) for i in range(n)]
    M = [row[:] for row in A]
    # SPD (established by the cholesky_banded stub on this path): no pivoting needed
    for c in range(n):
        for r in range(c + 1, n):
            if isinstance(M[r][c], R) and M[r][c].is_concrete() and M[r][c].v == 0:
                continue
            f = M[r][c] / M[c][c]
            M[r] = [x - f * y for x, y in zip(M[r], M[c])]
            rhs[r] = rhs[r] - rhs[c] * f
    sol = [None] * n
    for r in range(n - 1, -1, -1):
        s = rhs[r]
        for c in range(r + 1, n):
            s = s - M[r][c] * sol[c]
        sol[r] = s / M[r][r]
    return _build_object(sol)


def linalg_solve(a, b):
    if core.active() and (is_objarr(a) or is_objarr(b)):
        return exact_solve(a if is_objarr(a) else to_exact(a), b if is_objarr(b) else to_exact(b))
    return _np.linalg.solve(a, b)


SVD_HINTS = []      # candidate decompositions (U, w, Vh) supplied by a harness; see svd()


def svd(a, full_matrices=True, compute_uv=True, **kw):
    """contract stub for numpy.linalg.svd on symbolic matrices.  A singular value decomposition cannot be
    computed symbolically (it needs roots), so the harness that builds the matrix also names its
    decomposition; the stub hands it out only after *checking* the LAPACK contract on it as polynomial
    identities: U diag(w) Vh == a, U^T U == I, Vh Vh^T == I, w non-negative and non-increasing on the path."""
    if not core.active() or not is_objarr(a):
        return _np.linalg.svd(a, full_matrices=full_matrices, compute_uv=compute_uv, **kw)
    from . import polynorm
    ctx = core.ctx()
    m, n = a.shape
    k = min(m, n)

    def same(x, y):
        x, y = R.lift(x), R.lift(y)
        if x.is_concrete() and y.is_concrete():
            return x.v == y.v
        return polynorm.is_zero_identity(x.z3(), y.z3()) is True
    for (U, w, Vh) in SVD_HINTS:
        if U.shape != (m, k) or Vh.shape != (k, n) or len(w) != k:
            continue
        ok = all(same(sum((U[i, l] * w[l] * Vh[l, j] for l in range(k)), R(Fraction(0))), a[i, j]) for i in range(m) for j in range(n))
        ok = ok and all(same(sum((U[l, i] * U[l, j] for l in range(m)), R(Fraction(0))), 1 if i == j else 0) for i in range(k) for j in range(k))
        ok = ok and all(same(sum((Vh[i, l] * Vh[j, l] for l in range(n)), R(Fraction(0))), 1 if i == j else 0) for i in range(k) for j in range(k))
        if not ok:
            continue
        # ordering and sign are facts of the path, not identities: they must be entailed
        for l in range(k):
            if not builtins.bool(R.lift(w[l]) >= 0):
                ok = False
        for l in range(k - 1):
            if not builtins.bool(R.lift(w[l]) >= R.lift(w[l + 1])):
                ok = False
        if ok:
            if not compute_uv:
                return _build_object(list(w))
            return U.copy(), _build_object(list(w)), Vh.copy()
    raise Unsupported('numpy.linalg.svd of a symbolic matrix without a verified decomposition')


def finfo(dtype):
    if isinstance(dtype, NominalDtype):
        dtype = dtype.real if hasattr(dtype, 'real') else _np.dtype(str(dtype))
    return _np.finfo(dtype)


_OVER['finfo'] = finfo


def install_linalg():
    from . import sx
    sx.IMPORTS[('numpy.linalg', 'svd')] = svd
    object.__getattribute__(linalg, '_over')['svd'] = svd
    sx.IMPORTS[('scipy.linalg', 'cholesky_banded')] = cholesky_banded
    sx.IMPORTS[('scipy.linalg', 'cho_solve_banded')] = cho_solve_banded
    sx.IMPORTS[('numpy.linalg', 'solve')] = linalg_solve
    object.__getattribute__(linalg, '_over')['solve'] = linalg_solve
