"""pathsym: bounded per-path symbolic execution of the real pydl source with z3."""
