"""Canonical sum-of-monomials form of polynomial z3 Real terms (exact rationals).

Used as an *encoding normalisation* before an equality is handed to z3: z3's own `som` rewriter
does not merge monomials whose factors come in different orders, and nlsat then meets a
9-variable degree-6 identity it cannot finish.  After normalisation an identity becomes the
syntactically trivial `0 == 0`; a non-identity is passed on to the solver unchanged."""
from fractions import Fraction
import z3


class NotPolynomial(Exception):
    pass


def _const(f):
    return {(): f} if f != 0 else {}


def _add(a, b, sign=1):
    out = dict(a)
    for m, c in b.items():
        v = out.get(m, 0) + sign * c
        if v == 0:
            out.pop(m, None)
        else:
            out[m] = v
    return out


def _mulmono(m1, m2):
    d = dict(m1)
    for v, e in m2:
        d[v] = d.get(v, 0) + e
    return tuple(sorted(d.items()))


def _mul(a, b, cap):
    out = {}
    for m1, c1 in a.items():
        for m2, c2 in b.items():
            m = _mulmono(m1, m2)
            v = out.get(m, 0) + c1 * c2
            if v == 0:
                out.pop(m, None)
            else:
                out[m] = v
        if len(out) > cap:
            raise NotPolynomial('too many monomials')
    return out


def to_poly(t, cap=20000, memo=None):
    if memo is None:
        memo = {}
    key = t.get_id()
    if key in memo:
        return memo[key]
    if z3.is_rational_value(t):
        r = _const(Fraction(t.numerator_as_long(), t.denominator_as_long()))
    elif z3.is_int_value(t):
        r = _const(Fraction(t.as_long()))
    elif z3.is_const(t) and t.decl().kind() == z3.Z3_OP_UNINTERPRETED and t.sort() == z3.RealSort():
        r = {((str(t), 1),): Fraction(1)}
    elif z3.is_app(t):
        k = t.decl().kind()
        ch = t.children()
        if k == z3.Z3_OP_ADD:
            r = {}
            for c in ch:
                r = _add(r, to_poly(c, cap, memo))
        elif k == z3.Z3_OP_SUB:
            r = to_poly(ch[0], cap, memo)
            for c in ch[1:]:
                r = _add(r, to_poly(c, cap, memo), -1)
        elif k == z3.Z3_OP_UMINUS:
            r = _add({}, to_poly(ch[0], cap, memo), -1)
        elif k == z3.Z3_OP_MUL:
            r = _const(Fraction(1))
            for c in ch:
                r = _mul(r, to_poly(c, cap, memo), cap)
        elif k == z3.Z3_OP_DIV:
            den = to_poly(ch[1], cap, memo)
            if list(den.keys()) != [()]:
                raise NotPolynomial('division by a non-constant')
            r = {m: c / den[()] for m, c in to_poly(ch[0], cap, memo).items()}
        elif k == z3.Z3_OP_POWER and z3.is_rational_value(ch[1]) and ch[1].denominator_as_long() == 1 \
                and 0 <= ch[1].numerator_as_long() <= 12:
            base = to_poly(ch[0], cap, memo)
            r = _const(Fraction(1))
            for _ in range(ch[1].numerator_as_long()):
                r = _mul(r, base, cap)
        elif k == z3.Z3_OP_TO_REAL and z3.is_int_value(ch[0]):
            r = _const(Fraction(ch[0].as_long()))
        else:
            raise NotPolynomial(str(t.decl()))
    else:
        raise NotPolynomial('not an application')
    if len(r) > cap:
        raise NotPolynomial('too many monomials')
    memo[key] = r
    return r


def to_rat(t, cap, memo):
    """rational function as (numerator, denominator) polynomials; denominators are only ever
    multiplied (no gcd), which is sound for an identity check where the path condition already
    excludes zero denominators (every symbolic division forks on `den == 0`)."""
    key = ('r', t.get_id())
    if key in memo:
        return memo[key]
    one = _const(Fraction(1))
    try:
        r = (to_poly(t, cap, memo), one)
        memo[key] = r
        return r
    except NotPolynomial:
        pass
    if not z3.is_app(t):
        raise NotPolynomial('not an application')
    k = t.decl().kind()
    ch = t.children()
    if k in (z3.Z3_OP_ADD, z3.Z3_OP_SUB):
        n, d = to_rat(ch[0], cap, memo)
        for c in ch[1:]:
            n2, d2 = to_rat(c, cap, memo)
            if d2 == d:
                n = _add(n, n2, 1 if k == z3.Z3_OP_ADD else -1)
            else:
                n = _add(_mul(n, d2, cap), _mul(n2, d, cap), 1 if k == z3.Z3_OP_ADD else -1)
                d = _mul(d, d2, cap)
        r = (n, d)
    elif k == z3.Z3_OP_UMINUS:
        n, d = to_rat(ch[0], cap, memo)
        r = (_add({}, n, -1), d)
    elif k == z3.Z3_OP_MUL:
        n, d = one, one
        for c in ch:
            n2, d2 = to_rat(c, cap, memo)
            n, d = _mul(n, n2, cap), _mul(d, d2, cap)
        r = (n, d)
    elif k == z3.Z3_OP_DIV:
        n1, d1 = to_rat(ch[0], cap, memo)
        n2, d2 = to_rat(ch[1], cap, memo)
        r = (_mul(n1, d2, cap), _mul(d1, n2, cap))
    else:
        raise NotPolynomial(str(t.decl()))
    memo[key] = r
    return r


def is_zero_identity(lhs, rhs, cap=20000):
    """True iff lhs - rhs normalises to the zero polynomial; None when not polynomial."""
    memo = {}
    try:
        d = _add(to_poly(lhs, cap, memo), to_poly(rhs, cap, memo), -1)
        return len(d) == 0
    except (NotPolynomial, RecursionError):
        pass
    try:
        n1, d1 = to_rat(lhs, cap, memo)
        n2, d2 = to_rat(rhs, cap, memo)
        d = _add(_mul(n1, d2, cap), _mul(n2, d1, cap), -1)
        return len(d) == 0
    except (NotPolynomial, RecursionError):
        return None
