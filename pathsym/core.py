"""pathsym core: per-path symbolic executor (z3) + symbolic scalar classes.

The harness function is re-executed once per feasible path.  Symbolic Booleans (class B) call
the explorer from __bool__: both polarities are checked against the path condition with z3, one is
followed, the other is queued as a decision prefix to be replayed later (depth first).

Exit/verdict vocabulary used by the harness runner:
  Unsupported / Inconclusive  -> the obligation is INCONCLUSIVE (never a pass, never a violation)
  PathAbort                   -> path pruned by an assumption (infeasible precondition)
  NonFinite                   -> the real code would produce inf/NaN here (division by a zero that
                                 is feasible, sqrt of a negative); outside the exact-real model;
                                 harness decides (default: counted as a cut path)
All four derive from BaseException so that `except Exception`/`except TypeError` blocks inside
pydl cannot swallow them.
"""
import os
import time
from fractions import Fraction
import numpy as np
import z3


class Unsupported(BaseException):
    pass


class Inconclusive(BaseException):
    pass


class PathAbort(BaseException):
    pass


class NonFinite(BaseException):
    pass


class Violation(object):
    def __init__(self, label, inputs, detail=None):
        self.label = label
        self.inputs = inputs
        self.detail = detail

    def as_dict(self):
        return {'label': self.label, 'inputs': self.inputs, 'detail': self.detail}


_CTX = None


def ctx():
    if _CTX is None:
        raise RuntimeError('no active explorer')
    return _CTX


def active():
    return _CTX is not None


def _term_size(t, cap):
    n = 0
    stack = [t]
    seen = set()
    while stack and n < cap:
        e = stack.pop()
        if e.get_id() in seen:
            continue
        seen.add(e.get_id())
        n += 1
        stack.extend(e.children())
    return n


def _pyval(v):
    """z3 model value -> python (int / Fraction / bool / str)."""
    if z3.is_int_value(v):
        return v.as_long()
    if z3.is_rational_value(v):
        return Fraction(v.numerator_as_long(), v.denominator_as_long())
    if z3.is_algebraic_value(v):
        a = v.approx(30)
        return Fraction(a.numerator_as_long(), a.denominator_as_long())
    if z3.is_true(v):
        return True
    if z3.is_false(v):
        return False
    if z3.is_bv_value(v):
        return v.as_long()
    if z3.is_fp_value(v):
        # binary64 values travel as their bit pattern (exact, JSON-safe): {'f64': '0x...'}
        if v.isNaN():
            bits = 0x7ff8000000000000
        elif v.isInf():
            bits = (0xfff0000000000000 if v.isNegative() else 0x7ff0000000000000)
        else:
            bits = (int(bool(v.sign())) << (v.ebits() + v.sbits() - 1)) | (v.exponent_as_long(biased=True) << (v.sbits() - 1)) | v.significand_as_long()
        return {'f64': '0x%016x' % bits}
    return str(v)


_PYFN_CACHE = {}
RLIMIT_PER_MS = 300        # z3 resource units per nominal millisecond of budget (about 400/ms measured on nlsat queries)


def _single_var_fn(term):
    """(variable name, python predicate) for a Bool term over exactly one Int constant, else None.
    Used to decide character tests by finite-domain evaluation instead of a solver call."""
    key = term.get_id()
    if key in _PYFN_CACHE:
        return _PYFN_CACHE[key][1]
    names = set()

    def tr(t):
        if z3.is_int_value(t):
            return str(t.as_long())
        if z3.is_true(t):
            return 'True'
        if z3.is_false(t):
            return 'False'
        if z3.is_const(t) and t.decl().kind() == z3.Z3_OP_UNINTERPRETED:
            if t.sort() != z3.IntSort():
                raise ValueError
            names.add(str(t))
            return 'c'
        k = t.decl().kind()
        ch = [tr(x) for x in t.children()]
        if k == z3.Z3_OP_AND:
            return '(' + ' and '.join(ch) + ')'
        if k == z3.Z3_OP_OR:
            return '(' + ' or '.join(ch) + ')'
        if k == z3.Z3_OP_NOT:
            return '(not ' + ch[0] + ')'
        if k == z3.Z3_OP_EQ:
            return '(' + ch[0] + ' == ' + ch[1] + ')'
        if k == z3.Z3_OP_DISTINCT and len(ch) == 2:
            return '(' + ch[0] + ' != ' + ch[1] + ')'
        if k == z3.Z3_OP_LE:
            return '(' + ch[0] + ' <= ' + ch[1] + ')'
        if k == z3.Z3_OP_LT:
            return '(' + ch[0] + ' < ' + ch[1] + ')'
        if k == z3.Z3_OP_GE:
            return '(' + ch[0] + ' >= ' + ch[1] + ')'
        if k == z3.Z3_OP_GT:
            return '(' + ch[0] + ' > ' + ch[1] + ')'
        if k == z3.Z3_OP_ITE:
            return '(' + ch[1] + ' if ' + ch[0] + ' else ' + ch[2] + ')'
        if k == z3.Z3_OP_ADD:
            return '(' + ' + '.join(ch) + ')'
        if k == z3.Z3_OP_SUB:
            return '(' + ' - '.join(ch) + ')'
        if k == z3.Z3_OP_MUL:
            return '(' + ' * '.join(ch) + ')'
        if k == z3.Z3_OP_UMINUS:
            return '(-' + ch[0] + ')'
        raise ValueError
    res = None
    try:
        if _term_size(term, 400) < 400:
            src = tr(term)
            if len(names) == 1:
                res = (next(iter(names)), eval('lambda c: ' + src))
    except (ValueError, RecursionError):
        res = None
    _PYFN_CACHE[key] = (term, res)      # keep the term alive: z3 recycles AST ids of freed terms
    return res


class _ForeignModel(object):
    """model of a solver living in another z3 context: terms are translated there, values back"""

    def __init__(self, model, ctx2):
        self.m, self.c2 = model, ctx2

    def eval(self, t, model_completion=False):
        return self.m.eval(t.translate(self.c2), model_completion=model_completion).translate(z3.main_ctx())


class _ForeignSolver(object):
    def __init__(self, solver, ctx2):
        self.s, self.c2 = solver, ctx2

    def check(self):
        r = self.s.check()
        return {str(z3.sat): z3.sat, str(z3.unsat): z3.unsat}.get(str(r), z3.unknown)

    def model(self):
        return _ForeignModel(self.s.model(), self.c2)

    def reason_unknown(self):
        return self.s.reason_unknown()


class Explorer(object):
    """Depth-first exploration of the feasible paths of `fn(explorer)` by re-execution."""

    def __init__(self, name='', solver_timeout_ms=30000, max_paths=200000, max_seconds=600.0,
                 max_violations=8, logic=None, nonfinite='cut'):
        self.name = name
        self.solver_timeout_ms = solver_timeout_ms
        self.max_paths = max_paths
        self.max_seconds = max_seconds
        self.max_violations = max_violations
        self.nonfinite = nonfinite
        self.logic = logic
        self.solver = z3.Solver() if logic is None else z3.SolverFor(logic)
        self._keep = []
        # statistics
        self.paths = 0            # feasible paths run to completion (incl. ones ending in a cut)
        self.paths_completed = 0  # paths that reached the end of the harness function
        self.paths_aborted = 0    # assumption infeasible
        self.paths_cut = 0        # NonFinite cuts
        self.decisions = 0        # symbolic branch decisions taken (forks + implied)
        self.forks = 0            # decisions where both polarities were feasible
        self.queries = 0
        self.fresh_queries = 0
        self.domains = {}          # Int constant name -> list of still-possible values (over-approximation)
        self.domain_decided = 0
        self.fact_decided = 0
        self._facts = set()
        self._atom_cache = {}
        self.incremental_timeout_ms = 15000
        self.fresh_strategy = 'timeout-first'
        self._answered = self.solver
        self.solver_s = 0.0
        self.requires = 0         # assertions discharged
        self.sym_requires = 0     # ... of which the condition was a symbolic formula
        self.rewrites = 0         # ... discharged by z3's polynomial normaliser (no sat query)
        self.require_labels = {}
        self.violations = []
        self.cut_reasons = {}
        self.samples = []
        self.inputs = {}          # name -> z3 term (per path)
        self._fresh = 0
        self.prefix = []
        self.pos = 0
        self.log = []
        self.stack = []
        self.detail = None        # harness-provided description of the call in progress (for replays)
        self.t0 = None
        self.notes = []

    # ------------------------------------------------------------------ solver plumbing
    def _check(self, *assumptions):
        """satisfiability of path condition + assumptions.  First the incremental solver (cheap,
        short budget); if it answers unknown - its incremental core does not use nlsat - the same
        formula goes to a fresh solver, for which z3 selects its complete QF_NRA strategy."""
        t = time.time()
        # incremental solver: short wall-clock budget.  Fresh solver: a z3 *resource limit* instead of a
        # timeout - deterministic (the verdict does not depend on machine load) and z3 keeps its default
        # strategy (with 'timeout' set it wraps the tactic: an nlsat query that takes 17 s under rlimit
        # came back unknown after 300 s under timeout)
        self.solver.set('timeout', min(self.solver_timeout_ms, self.incremental_timeout_ms))
        r = self.solver.check(*assumptions)
        self._answered = self.solver
        self.queries += 1
        if r == z3.unknown:
            # portfolio of two fresh solvers on the same formula:
            #  'timeout' : z3 wraps its strategy in a wall-clock budget (what settled the mangle queries)
            #  'rlimit'  : default strategy under a resource limit, stopped from outside by interrupt()
            #              (settles the air/vacuum queries in 17 s that the first leaves unknown after 300 s)
            order = ('rlimit', 'timeout') if self.fresh_strategy == 'rlimit-first' else ('timeout', 'rlimit')
            # 'reparse': the formula is printed as SMT-LIB text and read back into a NEW z3 context.  z3's
            # non-linear core orders variables by AST creation order; in a long-lived context that order is an
            # accident of the path's history, and the same query that comes back unknown after 120 s was sat
            # in 0.02 s when re-read from its own text.  Tried first (cheap), then the two in-context strategies.
            order = (('reparse',) + order) if self.fresh_strategy != 'rlimit-first' else (order + ('reparse',))
            budget_ms = self.solver_timeout_ms
            in_context_done = 0
            for k, strat in enumerate(order):
                if strat == 'reparse':
                    share = min(10000, budget_ms // 10)
                else:
                    share = budget_ms if in_context_done == 0 else budget_ms // 2      # full budget for the first in-context strategy
                    in_context_done += 1
                timer = None
                if strat == 'reparse':
                    try:
                        dump = z3.Solver() if self.logic is None else z3.SolverFor(self.logic)
                        dump.add(self.solver.assertions())
                        dump.add(*assumptions)
                        text = dump.to_smt2()
                        c2 = z3.Context()
                        fresh = z3.Solver(ctx=c2) if self.logic is None else z3.SolverFor(self.logic, ctx=c2)
                        fresh.from_string(text)
                        fresh.set('timeout', int(share))
                        fresh = _ForeignSolver(fresh, c2)
                    except z3.Z3Exception:
                        continue
                else:
                    fresh = z3.Solver() if self.logic is None else z3.SolverFor(self.logic)
                    # (do not keep these solvers alive: retaining them slowed later queries on the same context dramatically)
                    fresh.add(self.solver.assertions())
                    fresh.add(*assumptions)
                    if strat == 'timeout':
                        fresh.set('timeout', int(share))
                    else:
                        fresh.set('rlimit', RLIMIT_PER_MS * int(share))
                        import threading
                        timer = threading.Timer(share / 1000.0, fresh.ctx.interrupt)
                        timer.daemon = True
                        timer.start()
                try:
                    r = fresh.check()
                finally:
                    if timer is not None:
                        timer.cancel()
                self._answered = fresh
                self.fresh_queries += 1
                if r != z3.unknown:
                    break
        self.solver_s += time.time() - t
        if r == z3.unknown and os.environ.get('PATHSYM_DUMP_UNKNOWN'):
            try:
                dump = z3.Solver()
                dump.add(self.solver.assertions())
                dump.add(*assumptions)
                with open(os.path.join(os.environ['PATHSYM_DUMP_UNKNOWN'], 'unknown_%d_%d.smt2' % (os.getpid(), self.queries)), 'w') as f:
                    f.write(dump.to_smt2())
            except Exception:
                pass
        if r == z3.unknown:
            raise Inconclusive('solver unknown (%s) in %s' % (self._answered.reason_unknown(), self.name))
        return r == z3.sat

    def _model(self):
        return self._answered.model()

    def add(self, term):
        self.solver.add(term)
        self._note_facts(term)

    # asserted comparison atoms in a canonical form: a later decision that is literally one of them
    # (or its negation) is answered without a solver call.  Purely syntactic and sound: a fact is only
    # recorded when it was asserted on this path.
    def _note_facts(self, term, depth=0):
        try:
            if isinstance(term, bool) or depth > 3:
                return
            if z3.is_and(term):
                for c in term.children():
                    self._note_facts(c, depth + 1)
                return
            k = self._atom_key(term)
            if k is not None:
                self._facts.add(k)
        except Exception:
            pass

    def _atom_key(self, t, negate=False):
        # memo by AST id; the term is stored with the key so that its id cannot be recycled (see DESIGN 9.2)
        ck = (t.get_id(), negate)
        hit = self._atom_cache.get(ck)
        if hit is not None:
            return hit[1]
        k = self._atom_key_uncached(t, negate)
        if len(self._atom_cache) < 200000:
            self._atom_cache[ck] = (t, k)
        return k

    def _atom_key_uncached(self, t, negate=False):
        from . import polynorm
        if z3.is_not(t):
            return self._atom_key(t.arg(0), not negate)
        if not z3.is_app(t) or t.num_args() != 2 or t.arg(0).sort() != z3.RealSort():
            return None
        k = t.decl().kind()
        if k not in (z3.Z3_OP_LE, z3.Z3_OP_GE, z3.Z3_OP_LT, z3.Z3_OP_GT):
            return None
        if _term_size(t, 400) >= 400:
            return None
        l, r = t.arg(0), t.arg(1)
        if k in (z3.Z3_OP_GE, z3.Z3_OP_GT):
            l, r = r, l
        strict = k in (z3.Z3_OP_LT, z3.Z3_OP_GT)
        try:
            memo = {}
            pl, pr = polynorm.to_poly(l, 2000, memo), polynorm.to_poly(r, 2000, memo)
        except polynorm.NotPolynomial:
            return None
        sign = -1 if negate else 1
        if negate:
            strict = not strict
        P = polynorm._add(pl, pr, -1)
        return ('lt' if strict else 'le', tuple(sorted((m, sign * c) for m, c in P.items())))

    def _implied_by_fact(self, term):
        """True / False when `term` (resp. its negation) is one of the asserted atoms, else None"""
        if not self._facts:
            return None
        try:
            k = self._atom_key(term)
            if k is None:
                return None
            if k in self._facts:
                return True
            kn = self._atom_key(term, True)
            if kn in self._facts:
                return False
            # a strict fact implies the weak one: P < 0 gives P <= 0
            if k[0] == 'le' and ('lt', k[1]) in self._facts:
                return True
            if kn[0] == 'le' and ('lt', kn[1]) in self._facts:
                return False
        except Exception:
            return None
        return None

    # ------------------------------------------------------------------ symbolic inputs
    def fresh_name(self, base):
        self._fresh += 1
        return '%s!%d' % (base, self._fresh)

    def real(self, name):
        t = z3.Real(name)
        self.inputs[name] = t
        return R(t)

    def reals(self, name, n):
        return [self.real('%s%d' % (name, i)) for i in range(n)]

    def int(self, name, lo=None, hi=None):
        t = z3.Int(name)
        self.inputs[name] = t
        if lo is not None:
            self.add(t >= lo)
        if hi is not None:
            self.add(t <= hi)
        return Z(t)

    def int64(self, name):
        """a Python int restricted to the int64 range, held as a wide bit-vector (class ZB)."""
        b = z3.BitVec(name, 64)
        self.inputs[name] = b           # model value reported as unsigned 64-bit; harness converts
        return ZB(z3.SignExt(ZB_BITS - 64, b))

    def declare_domain(self, term, values):
        """finite over-approximation of the values of an Int constant (character code): lets
        branch() settle tests that hold for every remaining value without a solver call"""
        self.domains[str(term)] = list(values)

    def bool(self, name):
        t = z3.Bool(name)
        self.inputs[name] = t
        return B(t)

    def bv(self, name, dtype):
        dtype = np.dtype(dtype)
        t = z3.BitVec(name, dtype.itemsize * 8)
        self.inputs[name] = t
        return BV(t, dtype)

    def fresh_real(self, base='t'):
        return z3.Real(self.fresh_name(base))

    # ------------------------------------------------------------------ decisions
    def branch(self, term):
        """Decide a symbolic Boolean z3 term on the current path; returns a Python bool."""
        term = z3.simplify(term)
        if z3.is_true(term):
            return True
        if z3.is_false(term):
            return False
        sv = _single_var_fn(term) if self.domains else None
        dom = None
        if sv is not None and sv[0] in self.domains:
            dom = self.domains[sv[0]]
            nt = 0
            for k in dom:
                if sv[1](k):
                    nt += 1
            if nt == len(dom):          # implied by the finite domain of this character: no solver call
                self.domain_decided += 1
                return True
            if nt == 0:
                self.domain_decided += 1
                return False
        imp = self._implied_by_fact(term)
        if imp is not None:
            self.fact_decided += 1
            return imp
        self.decisions += 1
        if self.pos < len(self.prefix):
            kind, val, forced = self.prefix[self.pos]
            assert kind == 'b', 'non-deterministic replay (expected branch) in %s' % self.name
            self.pos += 1
            self.log.append((kind, val, forced))
            if not forced:
                self.add(term if val else z3.Not(term))
            if dom is not None:
                self.domains[sv[0]] = [k for k in dom if bool(sv[1](k)) == val]
            return val
        can_t = self._check(term)
        can_f = self._check(z3.Not(term))
        if can_t and can_f:
            self.forks += 1
            self.stack.append(self.log + [('b', False, False)])
            self.log.append(('b', True, False))
            self.pos += 1
            self.add(term)
            if dom is not None:
                self.domains[sv[0]] = [k for k in dom if sv[1](k)]
            return True
        if not can_t and not can_f:
            raise PathAbort('path condition became infeasible')
        val = bool(can_t)
        self.log.append(('b', val, True))
        self.pos += 1
        if dom is not None:
            self.domains[sv[0]] = [k for k in dom if bool(sv[1](k)) == val]
        return val

    def concretize(self, term, pyconv=None):
        """Fork over the feasible values of an Int/BV/Real term; returns a concrete python value."""
        term = z3.simplify(term)
        if z3.is_int_value(term) or z3.is_bv_value(term) or z3.is_rational_value(term):
            return _pyval(term)
        while True:
            self.decisions += 1
            if self.pos < len(self.prefix):
                kind, val, taken = self.prefix[self.pos]
                assert kind == 'v', 'non-deterministic replay (expected value) in %s' % self.name
                self.pos += 1
                self.log.append((kind, val, taken))
            else:
                if not self._check():
                    raise PathAbort('infeasible')
                m = self._model()
                val = _pyval(m.eval(term, model_completion=True))
                zv = self._const_like(term, val)
                if self._check(term != zv):
                    self.forks += 1
                    self.stack.append(self.log + [('v', val, False)])
                self.log.append(('v', val, True))
                self.pos += 1
                taken = True
            zv = self._const_like(term, val)
            if taken:
                self.add(term == zv)
                return val
            self.add(term != zv)

    @staticmethod
    def _const_like(term, val):
        s = term.sort()
        if z3.is_bv_sort(s):
            return z3.BitVecVal(val, s.size())
        if s == z3.IntSort():
            return z3.IntVal(val)
        return z3.RealVal(str(val))

    def assume(self, cond):
        """Constrain the path; prune it if infeasible.  Assumptions go before the code they guard."""
        if isinstance(cond, B):
            cond = cond.term
        if isinstance(cond, (bool, np.bool_)):
            if not cond:
                raise PathAbort('assumption false')
            return
        self.add(cond)
        if not self._check():
            raise PathAbort('assumption infeasible')

    # ------------------------------------------------------------------ assertions
    def model_inputs(self):
        if not self._check():
            return None
        m = self._model()
        out = {}
        for k, t in self.inputs.items():
            out[k] = _pyval(m.eval(t, model_completion=True))
        return out

    def require(self, cond, label, detail=None):
        """Assert `cond` on the current path: pc and not cond must be unsat."""
        self.requires += 1
        self.require_labels[label] = self.require_labels.get(label, 0) + 1
        if isinstance(cond, B):
            cond = cond.term
        if isinstance(cond, (bool, np.bool_)):
            if cond:
                return True
            inputs = self.model_inputs()
            self._violation(label, inputs, detail)
            return False
        self.sym_requires += 1
        cond = z3.simplify(cond)
        if z3.is_true(cond):
            return True
        if self._poly_identity(cond):
            self.rewrites += 1
            return True
        if self._check(z3.Not(cond)):
            # prefer a counterexample made of "nice" (exactly representable) values when one exists
            for hint in getattr(self, 'hints', []):
                try:
                    saved_t = self.solver_timeout_ms
                    self.solver_timeout_ms = min(saved_t, 10000)
                    if self._check(z3.Not(cond), hint):
                        break
                except Inconclusive:
                    pass
                finally:
                    self.solver_timeout_ms = saved_t
            else:
                self._check(z3.Not(cond))
            m = self._model()
            inputs = {k: _pyval(m.eval(t, model_completion=True)) for k, t in self.inputs.items()}
            self._violation(label, inputs, detail() if callable(detail) else detail)
            self.add(cond)
            if not self._check():
                raise PathAbort('assertion fails on the whole path')
            return False
        return True

    def _poly_identity(self, cond):
        """an equality between two polynomial terms whose canonical sum-of-monomials forms coincide
        is the trivial `0 == 0` after normalisation of the encoding (pathsym.polynorm); anything
        else goes to the solver."""
        from . import polynorm
        try:
            if z3.is_eq(cond) and cond.arg(0).sort() == z3.RealSort():
                return polynorm.is_zero_identity(cond.arg(0), cond.arg(1)) is True
        except z3.Z3Exception:
            pass
        return False

    def fail(self, label, detail=None):
        """Unconditional failure of the current path (e.g. an exception the property forbids)."""
        self.requires += 1
        self.require_labels[label] = self.require_labels.get(label, 0) + 1
        self._violation(label, self.model_inputs(), detail)

    def _violation(self, label, inputs, detail):
        def js(v):
            if isinstance(v, Fraction):
                return {'num': str(v.numerator), 'den': str(v.denominator)}
            return v
        inputs = None if inputs is None else {k: js(v) for k, v in inputs.items()}
        self.violations.append(Violation(label, inputs, detail))

    def sample(self, obj):
        if len(self.samples) < 3:
            self.samples.append(obj)

    # ------------------------------------------------------------------ driver
    def explore(self, fn):
        global _CTX
        self.t0 = time.time()
        self.stack = [[]]
        prev = _CTX
        _CTX = self
        try:
            while self.stack:
                if self.paths >= self.max_paths:
                    raise Inconclusive('path budget exhausted (%d) in %s' % (self.max_paths, self.name))
                if time.time() - self.t0 > self.max_seconds:
                    raise Inconclusive('time budget exhausted (%.0fs) in %s' % (self.max_seconds, self.name))
                if len(self.violations) >= self.max_violations:
                    self.notes.append('stopped after %d violations' % len(self.violations))
                    break
                self.prefix = self.stack.pop()
                self.pos = 0
                self.log = []
                self.inputs = {}
                self._fresh = 0
                self.detail = None
                self.hints = []
                self.domains = {}
                self._facts = set()
                self.solver.push()
                try:
                    fn(self)
                    self.paths += 1
                    self.paths_completed += 1
                except PathAbort:
                    self.paths_aborted += 1
                except Exception as e:
                    # an exception escaping from the code under test that the harness did not
                    # expect: a counterexample candidate (decided by the replay on the real code)
                    import traceback
                    self.paths += 1
                    site = ''
                    for fr in traceback.extract_tb(e.__traceback__):
                        if '/pydl/' in fr.filename:
                            site = '%s:%s' % (fr.filename.split('/pydl/', 1)[1], fr.name)
                    if not site:
                        raise
                    self.requires += 1
                    det = dict(self.detail) if isinstance(self.detail, dict) else {'detail': self.detail}
                    det['exception'] = '%s: %s' % (type(e).__name__, str(e)[:200])
                    self._violation('exception: %s in %s' % (type(e).__name__, site), self.model_inputs(), det)
                except NonFinite as e:
                    self.paths += 1
                    self.paths_cut += 1
                    key = str(e)
                    self.cut_reasons[key] = self.cut_reasons.get(key, 0) + 1
                    if self.nonfinite == 'violation':
                        self._violation('non-finite: ' + key, self.model_inputs(), dict(self.detail) if isinstance(self.detail, dict) else None)
                finally:
                    self.solver.pop()
        finally:
            _CTX = prev
        return self

    def stats(self):
        return {'name': self.name, 'paths': self.paths, 'completed': self.paths_completed,
                'aborted': self.paths_aborted, 'cut': self.paths_cut, 'cut_reasons': self.cut_reasons,
                'decisions': self.decisions, 'forks': self.forks, 'queries': self.queries,
                'solver_s': round(self.solver_s, 4), 'requires': self.requires,
                'sym_requires': self.sym_requires, 'rewrites': self.rewrites, 'fresh_queries': self.fresh_queries, 'domain_decided': self.domain_decided,
                'require_labels': self.require_labels,
                'violations': [v.as_dict() for v in self.violations],
                'samples': self.samples, 'notes': self.notes,
                'wall_s': round(time.time() - self.t0, 3) if self.t0 else 0.0}


# =====================================================================================
# scalar classes
# =====================================================================================

def _is_conc(v):
    return isinstance(v, (Fraction, int, bool))


def _frac(x):
    """exact rational of a concrete python/numpy number."""
    if isinstance(x, Fraction):
        return x
    if isinstance(x, (bool, np.bool_)):
        return Fraction(int(x))
    if isinstance(x, (int, np.integer)):
        return Fraction(int(x))
    if isinstance(x, (float, np.floating)):
        f = float(x)
        if f != f or f in (float('inf'), float('-inf')):
            raise NonFinite('non-finite constant')
        return Fraction(f)
    raise TypeError(type(x))


def _rterm(v):
    if isinstance(v, Fraction):
        if v.denominator == 1:
            return z3.RealVal(v.numerator)
        return z3.RealVal(str(v.numerator)) / z3.RealVal(str(v.denominator))
    return v


class Sym(object):
    __slots__ = ()


class B(Sym):
    """symbolic (or concrete) Boolean."""
    __slots__ = ('term',)

    def __init__(self, term):
        if isinstance(term, B):
            term = term.term
        if isinstance(term, (np.bool_,)):
            term = bool(term)
        self.term = term

    @staticmethod
    def lift(x):
        if isinstance(x, B):
            return x
        if isinstance(x, (bool, np.bool_)):
            return B(bool(x))
        if isinstance(x, (int, np.integer)):
            return B(bool(x))
        if isinstance(x, (R, Z, BV)):
            return x != 0
        raise TypeError('cannot lift %r to B' % (type(x),))

    def z3(self):
        return z3.BoolVal(self.term) if isinstance(self.term, bool) else self.term

    def is_concrete(self):
        return isinstance(self.term, bool)

    def __bool__(self):
        if isinstance(self.term, bool):
            return self.term
        return ctx().branch(self.term)

    def __and__(self, o):
        o = B.lift(o)
        if isinstance(self.term, bool):
            return o if self.term else B(False)
        if isinstance(o.term, bool):
            return self if o.term else B(False)
        return B(z3.And(self.term, o.term))
    __rand__ = __and__

    def __or__(self, o):
        o = B.lift(o)
        if isinstance(self.term, bool):
            return B(True) if self.term else o
        if isinstance(o.term, bool):
            return B(True) if o.term else self
        return B(z3.Or(self.term, o.term))
    __ror__ = __or__

    def __xor__(self, o):
        o = B.lift(o)
        if isinstance(self.term, bool) and isinstance(o.term, bool):
            return B(self.term != o.term)
        return B(z3.Xor(self.z3(), o.z3()))
    __rxor__ = __xor__

    def __invert__(self):
        if isinstance(self.term, bool):
            return B(not self.term)
        return B(z3.Not(self.term))

    def logical_not(self):
        return ~self

    def __eq__(self, o):
        try:
            o = B.lift(o)
        except TypeError:
            return NotImplemented
        if isinstance(self.term, bool) and isinstance(o.term, bool):
            return B(self.term == o.term)
        return B(self.z3() == o.z3())

    def __ne__(self, o):
        r = self.__eq__(o)
        return r if r is NotImplemented else ~r

    __hash__ = None

    # arithmetic: a Boolean used as a number is 0/1
    def _num(self):
        if isinstance(self.term, bool):
            return R(Fraction(int(self.term)))
        return R(z3.If(self.term, z3.RealVal(1), z3.RealVal(0)))

    def as_int(self):
        if isinstance(self.term, bool):
            return Z(int(self.term))
        return Z(z3.If(self.term, z3.IntVal(1), z3.IntVal(0)))

    def __add__(self, o):
        return _bnum(self, o) + o
    __radd__ = __add__

    def __sub__(self, o):
        return _bnum(self, o) - o

    def __rsub__(self, o):
        return o - _bnum(self, o)

    def __mul__(self, o):
        if isinstance(o, B):
            return self & o
        if isinstance(o, (bool, np.bool_)):
            return self & B(bool(o))
        return _bnum(self, o) * o
    __rmul__ = __mul__

    def __truediv__(self, o):
        return self._num() / o

    def __rtruediv__(self, o):
        return o / self._num()

    def __neg__(self):
        return -self.as_int()

    def __lt__(self, o):
        return _bnum(self, o) < o

    def __le__(self, o):
        return _bnum(self, o) <= o

    def __gt__(self, o):
        return _bnum(self, o) > o

    def __ge__(self, o):
        return _bnum(self, o) >= o

    def __repr__(self):
        return 'B(%s)' % (self.term,)


def _bnum(b, other):
    if isinstance(other, (Z, int, np.integer, bool, np.bool_, BV)) and not isinstance(other, R):
        return b.as_int()
    return b._num()


def ite(c, a, b):
    """if-then-else without forking for scalar R/Z values."""
    c = B.lift(c)
    if isinstance(c.term, bool):
        return a if c.term else b
    if isinstance(a, Z) or isinstance(b, Z):
        if not isinstance(a, R) and not isinstance(b, R):
            a, b = Z.lift(a), Z.lift(b)
            return Z(z3.If(c.term, a.z3(), b.z3()))
    if isinstance(a, BV) and isinstance(b, BV):
        return BV(z3.If(c.term, a.term, b.term), a.dtype)
    if isinstance(a, B) or isinstance(b, B):
        a, b = B.lift(a), B.lift(b)
        return B(z3.If(c.term, a.z3(), b.z3()))
    a, b = R.lift(a), R.lift(b)
    return R(z3.If(c.term, a.z3(), b.z3()))


class NaNR(Sym):
    """IEEE NaN as produced by numpy for sqrt(negative): propagates through arithmetic, every
    ordered comparison is False (this much of IEEE is needed to follow the real code where it
    deliberately relies on NaN comparing False)."""
    __slots__ = ()

    def _n(self, *a):
        return self
    __add__ = __radd__ = __sub__ = __rsub__ = __mul__ = __rmul__ = __truediv__ = __rtruediv__ = _n
    __neg__ = __pos__ = __abs__ = sqrt = absolute = floor = ceil = _n

    def _f(self, o):
        return B(False)
    __lt__ = __le__ = __gt__ = __ge__ = __eq__ = _f

    def __ne__(self, o):
        return B(True)

    __hash__ = None

    def __bool__(self):
        return True

    def __repr__(self):
        return 'NaN'


NAN = NaNR()


class R(Sym):
    """exact real: Fraction constant or z3 Real term."""
    __slots__ = ('v',)

    def __init__(self, v):
        if isinstance(v, R):
            v = v.v
        elif isinstance(v, z3.ExprRef):
            pass
        elif not isinstance(v, Fraction):
            v = _frac(v)
        self.v = v

    @staticmethod
    def lift(x):
        if isinstance(x, R):
            return x
        if isinstance(x, NaNR):
            return None
        if isinstance(x, Z):
            if isinstance(x.v, int):
                return R(Fraction(x.v))
            return R(z3.ToReal(x.v))
        if isinstance(x, B):
            return x._num()
        if isinstance(x, BV):
            raise Unsupported('bit-vector mixed with real arithmetic')
        if isinstance(x, (int, float, Fraction, bool, np.integer, np.floating, np.bool_)):
            return R(_frac(x))
        if isinstance(x, np.ndarray) and x.ndim == 0:
            return R.lift(x.item())
        return None

    def is_concrete(self):
        return isinstance(self.v, Fraction)

    def z3(self):
        return _rterm(self.v)

    def frac(self):
        assert isinstance(self.v, Fraction)
        return self.v

    def _bin(self, o, fc, fs):
        o2 = R.lift(o)
        if o2 is None:
            return NotImplemented
        if isinstance(self.v, Fraction) and isinstance(o2.v, Fraction):
            return R(fc(self.v, o2.v))
        return R(fs(self.z3(), o2.z3()))

    def __add__(self, o):
        o2 = R.lift(o)
        if o2 is None:
            return NotImplemented
        if isinstance(o2.v, Fraction) and o2.v == 0:
            return self
        if isinstance(self.v, Fraction):
            if self.v == 0:
                return o2
            if isinstance(o2.v, Fraction):
                return R(self.v + o2.v)
        return R(self.z3() + o2.z3())
    __radd__ = __add__

    def __sub__(self, o):
        o2 = R.lift(o)
        if o2 is None:
            return NotImplemented
        if isinstance(o2.v, Fraction):
            if o2.v == 0:
                return self
            if isinstance(self.v, Fraction):
                return R(self.v - o2.v)
        return R(self.z3() - o2.z3())

    def __rsub__(self, o):
        o2 = R.lift(o)
        if o2 is None:
            return NotImplemented
        return o2.__sub__(self)

    def __mul__(self, o):
        o2 = R.lift(o)
        if o2 is None:
            return NotImplemented
        if isinstance(self.v, Fraction):
            if self.v == 0:
                return R(Fraction(0))
            if self.v == 1:
                return o2
            if isinstance(o2.v, Fraction):
                return R(self.v * o2.v)
        if isinstance(o2.v, Fraction):
            if o2.v == 0:
                return R(Fraction(0))
            if o2.v == 1:
                return self
        return R(self.z3() * o2.z3())
    __rmul__ = __mul__

    def __truediv__(self, o):
        o2 = R.lift(o)
        if o2 is None:
            return NotImplemented
        if not isinstance(o2.v, Fraction):
            den = z3.simplify(o2.v)
            if z3.is_rational_value(den):
                o2 = R(Fraction(den.numerator_as_long(), den.denominator_as_long()))
        if isinstance(o2.v, Fraction):
            if o2.v == 0:
                raise NonFinite('division by zero')
            if isinstance(self.v, Fraction):
                return R(self.v / o2.v)
            if o2.v == 1:
                return self
            return R(self.z3() * _rterm(1 / o2.v))
        c = ctx()
        if c.branch(o2.v == 0):
            raise NonFinite('division by zero')
        if isinstance(self.v, Fraction) and self.v == 0:
            return R(Fraction(0))
        if getattr(c, 'purify_div', False):
            # q = num/den  as  q*den == num  (den != 0 on this path): keeps the query polynomial
            q = c.fresh_real('quot')
            c.add(q * o2.v == self.z3())
            return R(q)
        return R(self.z3() / o2.v)

    def __rtruediv__(self, o):
        o2 = R.lift(o)
        if o2 is None:
            return NotImplemented
        return o2.__truediv__(self)

    def __floordiv__(self, o):
        q = self.__truediv__(o)
        if q is NotImplemented:
            return q
        return q.floor()

    def __rfloordiv__(self, o):
        o2 = R.lift(o)
        if o2 is None:
            return NotImplemented
        return o2.__floordiv__(self)

    def __mod__(self, o):
        o2 = R.lift(o)
        if o2 is None:
            return NotImplemented
        return self - (self // o2) * o2

    def __pow__(self, n):
        if isinstance(n, R) and n.is_concrete() and n.v.denominator == 1:
            n = int(n.v)
        if isinstance(n, Z) and isinstance(n.v, int):
            n = n.v
        if isinstance(n, (float, np.floating)) and float(n) == int(n):
            n = int(n)
        if isinstance(n, (int, np.integer)):
            n = int(n)
            if n < 0:
                return R(Fraction(1)) / (self ** (-n))
            out = R(Fraction(1))
            for _ in range(n):
                out = out * self
            return out
        if isinstance(n, (float, np.floating)) and float(n) == 0.5:
            return self.sqrt()
        raise Unsupported('R ** %r' % (n,))

    def __rpow__(self, base):
        raise Unsupported('constant ** symbolic real')

    def __neg__(self):
        if isinstance(self.v, Fraction):
            return R(-self.v)
        return R(-self.v)

    def __pos__(self):
        return self

    def __abs__(self):
        if isinstance(self.v, Fraction):
            return R(abs(self.v))
        return R(z3.If(self.v >= 0, self.v, -self.v))

    def absolute(self):
        return abs(self)

    fabs = absolute

    def conjugate(self):
        return self

    def sqrt(self):
        if isinstance(self.v, Fraction):
            if self.v < 0:
                if getattr(ctx(), 'allow_nan', False):
                    return NAN
                raise NonFinite('sqrt of negative')
            n, d = self.v.numerator, self.v.denominator
            import math
            rn, rd = math.isqrt(n), math.isqrt(d)
            if rn * rn == n and rd * rd == d:
                return R(Fraction(rn, rd))
        t = self.v
        if z3.is_app(t) and t.decl().kind() == z3.Z3_OP_MUL and t.num_args() == 2 and t.arg(0).eq(t.arg(1)):
            a = t.arg(0)            # sqrt(a*a) = |a|
            return R(z3.If(a >= 0, a, -a))
        c = ctx()
        if c.branch(self.z3() < 0):
            if getattr(c, 'allow_nan', False):
                return NAN
            raise NonFinite('sqrt of negative')
        s = c.fresh_real('sqrt')
        c.add(s >= 0)
        c.add(s * s == self.z3())
        return R(s)

    def floor(self):
        if isinstance(self.v, Fraction):
            return R(Fraction(self.v.numerator // self.v.denominator))
        return R(z3.ToReal(z3.ToInt(self.v)))

    def ceil(self):
        return -((-self).floor())

    def trunc_int(self):
        """python int(x): truncation toward zero -> Z"""
        if isinstance(self.v, Fraction):
            return Z(int(self.v))
        return Z(z3.If(self.v >= 0, z3.ToInt(self.v), -z3.ToInt(-self.v)))

    def rint(self):
        raise Unsupported('rint on symbolic real')

    def _cmp(self, o, fc, fs):
        o2 = R.lift(o)
        if o2 is None:
            return NotImplemented
        if isinstance(self.v, Fraction) and isinstance(o2.v, Fraction):
            return B(fc(self.v, o2.v))
        return B(fs(self.z3(), o2.z3()))

    def __lt__(self, o):
        return self._cmp(o, lambda a, b: a < b, lambda a, b: a < b)

    def __le__(self, o):
        return self._cmp(o, lambda a, b: a <= b, lambda a, b: a <= b)

    def __gt__(self, o):
        return self._cmp(o, lambda a, b: a > b, lambda a, b: a > b)

    def __ge__(self, o):
        return self._cmp(o, lambda a, b: a >= b, lambda a, b: a >= b)

    def __eq__(self, o):
        return self._cmp(o, lambda a, b: a == b, lambda a, b: a == b)

    def __ne__(self, o):
        return self._cmp(o, lambda a, b: a != b, lambda a, b: a != b)

    __hash__ = None

    def __bool__(self):
        return bool(self != 0)

    def __float__(self):
        if isinstance(self.v, Fraction):
            return float(self.v)
        raise Unsupported('float() of a symbolic real (silent concretisation refused)')

    def __int__(self):
        if isinstance(self.v, Fraction):
            return int(self.v)
        raise Unsupported('int() of a symbolic real')

    def __index__(self):
        raise Unsupported('symbolic real used as an index')

    def __repr__(self):
        if isinstance(self.v, Fraction):
            return 'R(%s)' % (self.v,)
        s = str(self.v)
        return 'R<%s>' % (s if len(s) < 60 else s[:57] + '...')


class Z(Sym):
    """python int: concrete int or z3 Int term."""
    __slots__ = ('v',)

    def __init__(self, v):
        if isinstance(v, Z):
            v = v.v
        elif isinstance(v, (bool, np.bool_, np.integer)):
            v = int(v)
        self.v = v

    @staticmethod
    def lift(x):
        if isinstance(x, Z):
            return x
        if isinstance(x, (bool, np.bool_, int, np.integer)):
            return Z(int(x))
        if isinstance(x, B):
            return x.as_int()
        return None

    def is_concrete(self):
        return isinstance(self.v, int)

    def z3(self):
        return z3.IntVal(self.v) if isinstance(self.v, int) else self.v

    def concretize(self):
        if isinstance(self.v, int):
            return self.v
        return ctx().concretize(self.v)

    def _bin(self, o, fc, fs):
        if isinstance(o, (R, float, np.floating, Fraction)):
            return NotImplemented if isinstance(o, R) else getattr(R.lift(self), fc.__name__)(o)
        o2 = Z.lift(o)
        if o2 is None:
            return NotImplemented
        if isinstance(self.v, int) and isinstance(o2.v, int):
            return Z(fc(self.v, o2.v))
        return Z(fs(self.z3(), o2.z3()))

    def __add__(self, o):
        if isinstance(o, (float, np.floating, Fraction)):
            return R.lift(self) + o
        if isinstance(o, R):
            return NotImplemented
        o2 = Z.lift(o)
        if o2 is None:
            return NotImplemented
        if isinstance(self.v, int) and isinstance(o2.v, int):
            return Z(self.v + o2.v)
        return Z(self.z3() + o2.z3())
    __radd__ = __add__

    def __sub__(self, o):
        if isinstance(o, (float, np.floating, Fraction)):
            return R.lift(self) - o
        if isinstance(o, R):
            return NotImplemented
        o2 = Z.lift(o)
        if o2 is None:
            return NotImplemented
        if isinstance(self.v, int) and isinstance(o2.v, int):
            return Z(self.v - o2.v)
        return Z(self.z3() - o2.z3())

    def __rsub__(self, o):
        if isinstance(o, (float, np.floating, Fraction)):
            return o - R.lift(self)
        o2 = Z.lift(o)
        if o2 is None:
            return NotImplemented
        return o2 - self

    def __mul__(self, o):
        if isinstance(o, (float, np.floating, Fraction)):
            return R.lift(self) * o
        if isinstance(o, R):
            return NotImplemented
        o2 = Z.lift(o)
        if o2 is None:
            return NotImplemented
        if isinstance(self.v, int) and isinstance(o2.v, int):
            return Z(self.v * o2.v)
        return Z(self.z3() * o2.z3())
    __rmul__ = __mul__

    def __truediv__(self, o):
        return R.lift(self) / o

    def __rtruediv__(self, o):
        return o / R.lift(self)

    def __floordiv__(self, o):
        if isinstance(o, (float, np.floating, Fraction, R)):
            return R.lift(self) // o
        o2 = Z.lift(o)
        if o2 is None:
            return NotImplemented
        if isinstance(o2.v, int):
            if o2.v == 0:
                raise ZeroDivisionError('integer division or modulo by zero')
            if isinstance(self.v, int):
                return Z(self.v // o2.v)
            if o2.v > 0:
                return Z(self.v / o2.z3())      # z3 int div == floor for positive divisor
            return Z((-self.v) / z3.IntVal(-o2.v))
        if ctx().branch(o2.v == 0):
            raise ZeroDivisionError('integer division or modulo by zero')
        a, b = self.z3(), o2.v
        return Z(z3.If(b > 0, a / b, (-a) / (-b)))

    def __rfloordiv__(self, o):
        return Z.lift(o) // self

    def __mod__(self, o):
        o2 = Z.lift(o)
        if o2 is None:
            return NotImplemented
        return self - (self // o2) * o2

    def __rmod__(self, o):
        return Z.lift(o) % self

    def __pow__(self, n):
        if isinstance(n, Z):
            n = n.concretize()
        if isinstance(n, (int, np.integer)) and n >= 0:
            out = Z(1)
            for _ in range(int(n)):
                out = out * self
            return out
        raise Unsupported('Z ** %r' % (n,))

    def __rpow__(self, base):
        n = self.concretize()
        return base ** n

    def __lshift__(self, n):
        n = Z.lift(n).concretize()
        return self * (2 ** n)

    def __rshift__(self, n):
        n = Z.lift(n).concretize()
        return self // (2 ** n)

    def __rlshift__(self, base):
        return base << self.concretize()

    def __neg__(self):
        return Z(-self.v)

    def __pos__(self):
        return self

    def __abs__(self):
        if isinstance(self.v, int):
            return Z(abs(self.v))
        return Z(z3.If(self.v >= 0, self.v, -self.v))

    def _cmp(self, o, op):
        if isinstance(o, (float, np.floating, Fraction)):
            return getattr(R.lift(self), op)(o)
        if isinstance(o, R):
            return NotImplemented
        o2 = Z.lift(o)
        if o2 is None:
            return NotImplemented
        if isinstance(self.v, int) and isinstance(o2.v, int):
            return B(getattr(self.v, op)(o2.v))
        return B(getattr(self.z3(), op)(o2.z3()))

    def __lt__(self, o):
        return self._cmp(o, '__lt__')

    def __le__(self, o):
        return self._cmp(o, '__le__')

    def __gt__(self, o):
        return self._cmp(o, '__gt__')

    def __ge__(self, o):
        return self._cmp(o, '__ge__')

    def __eq__(self, o):
        return self._cmp(o, '__eq__')

    def __ne__(self, o):
        return self._cmp(o, '__ne__')

    __hash__ = None

    def __bool__(self):
        return bool(self != 0)

    def __index__(self):
        return self.concretize()

    def __int__(self):
        return self.concretize()

    def __float__(self):
        if isinstance(self.v, int):
            return float(self.v)
        raise Unsupported('float() of a symbolic int')

    def __repr__(self):
        return 'Z(%s)' % (self.v,)


_BV_KINDS = {'i': True, 'u': False}


class BV(Sym):
    """numpy sized integer scalar: z3 bit-vector + nominal dtype (wrap-around arithmetic)."""
    __slots__ = ('term', 'dtype')

    def __init__(self, term, dtype):
        self.dtype = np.dtype(dtype)
        if isinstance(term, (int, np.integer)):
            term = z3.BitVecVal(int(term), self.dtype.itemsize * 8)
        self.term = term

    @property
    def signed(self):
        return self.dtype.kind == 'i'

    @property
    def bits(self):
        return self.dtype.itemsize * 8

    def is_concrete(self):
        return z3.is_bv_value(z3.simplify(self.term))

    def cast(self, dtype):
        """numpy astype / same-kind store: truncate or sign/zero extend."""
        dtype = np.dtype(dtype)
        if dtype.kind not in 'iu':
            raise Unsupported('cast of symbolic integer to %s' % dtype)
        nb = dtype.itemsize * 8
        t = self.term
        if nb < self.bits:
            t = z3.Extract(nb - 1, 0, t)
        elif nb > self.bits:
            t = z3.SignExt(nb - self.bits, t) if self.signed else z3.ZeroExt(nb - self.bits, t)
        return BV(t, dtype)

    def as_Z(self):
        t = z3.simplify(self.term)
        if z3.is_bv_value(t):
            return Z(t.as_signed_long() if self.signed else t.as_long())
        return Z(z3.BV2Int(self.term, is_signed=self.signed))

    def _coerce(self, o):
        """numpy promotion for a binary op; returns (a, b, dtype) or raises / NotImplemented."""
        if isinstance(o, BV):
            dt = np.result_type(self.dtype, o.dtype)
            if dt.kind not in 'iu':
                raise TypeError("ufunc not supported for the input types (%s, %s -> %s): symbolic "
                                "model follows numpy promotion" % (self.dtype, o.dtype, dt))
            return self.cast(dt), o.cast(dt), dt
        if isinstance(o, Z):
            if o.is_concrete():
                o = o.v
            else:
                raise Unsupported('sized int combined with unbounded symbolic int')
        if isinstance(o, (bool, np.bool_)):
            o = int(o)
        if isinstance(o, np.integer):
            return self._coerce(BV(int(o), o.dtype))
        if isinstance(o, int):
            # NEP 50: python int is weak; must fit the dtype
            info = np.iinfo(self.dtype)
            if not (info.min <= o <= info.max):
                raise OverflowError('Python integer %d out of bounds for %s' % (o, self.dtype))
            return self, BV(o, self.dtype), self.dtype
        return None

    def _with_int64_array_elem(self, o, opname, swap=False):
        """sized scalar <op> element of an int64 array: NumPy promotion; float64 for uint64 with int64"""
        dt = np.result_type(self.dtype, np.int64)
        if dt.kind != 'f':
            return None
        from .fp import F64
        me = self.as_Z().concretize()
        other = o.concretize()
        a, b = (float(other), float(me)) if swap else (float(me), float(other))
        if opname == 'pow':
            return F64.lift(a ** b)
        return getattr(F64.lift(a), '__%s__' % opname)(F64.lift(b))

    def _arith(self, o, f, swap=False, opname=None):
        if isinstance(o, ZA) and opname is not None:
            r = self._with_int64_array_elem(o, opname, swap)
            if r is not None:
                return r
        if isinstance(o, (float, np.floating, R, Fraction)):
            # numpy: integer (op) float -> float64
            me = R.lift(self.as_Z())
            return f(R.lift(o), me) if swap else f(me, R.lift(o))
        c = self._coerce(o)
        if c is None:
            return NotImplemented
        a, b, dt = c
        if swap:
            a, b = b, a
        return BV(f(a.term, b.term), dt)

    def __add__(self, o):
        return self._arith(o, lambda a, b: a + b, opname='add')
    __radd__ = __add__

    def __sub__(self, o):
        return self._arith(o, lambda a, b: a - b, opname='sub')

    def __rsub__(self, o):
        return self._arith(o, lambda a, b: a - b, swap=True)

    def __mul__(self, o):
        return self._arith(o, lambda a, b: a * b, opname='mul')
    __rmul__ = __mul__

    def __and__(self, o):
        return self._arith(o, lambda a, b: a & b)
    __rand__ = __and__

    def __or__(self, o):
        return self._arith(o, lambda a, b: a | b)
    __ror__ = __or__

    def __xor__(self, o):
        return self._arith(o, lambda a, b: a ^ b)
    __rxor__ = __xor__

    def __invert__(self):
        return BV(~self.term, self.dtype)

    def __neg__(self):
        return BV(-self.term, self.dtype)

    def __lshift__(self, o):
        return self._arith(o, lambda a, b: a << b)

    def __rshift__(self, o):
        c = self._coerce(o)
        if c is None:
            return NotImplemented
        a, b, dt = c
        if dt.kind == 'i':
            return BV(a.term >> b.term, dt)
        return BV(z3.LShR(a.term, b.term), dt)

    def __truediv__(self, o):
        o2 = o.as_Z() if isinstance(o, BV) else o
        return R.lift(self.as_Z()) / o2

    def __rtruediv__(self, o):
        return R.lift(o) / R.lift(self.as_Z())

    def __floordiv__(self, o):
        if isinstance(o, (float, np.floating, R, Fraction)):
            return R.lift(self.as_Z()) // o
        c = self._coerce(o)
        if c is None:
            return NotImplemented
        a, b, dt = c
        if ctx().branch(b.term == 0):
            raise NonFinite('integer division by zero (numpy returns 0 with a warning)')
        if dt.kind == 'u':
            return BV(z3.UDiv(a.term, b.term), dt)
        # floor division for signed
        q = a.term / b.term
        r = z3.SRem(a.term, b.term)
        adj = z3.And(r != 0, (r < 0) != (b.term < 0))
        return BV(z3.If(adj, q - 1, q), dt)

    def __mod__(self, o):
        c = self._coerce(o)
        if c is None:
            return NotImplemented
        a, b, dt = c
        if ctx().branch(b.term == 0):
            raise NonFinite('integer modulo by zero')
        if dt.kind == 'u':
            return BV(z3.URem(a.term, b.term), dt)
        r = z3.SRem(a.term, b.term)
        adj = z3.And(r != 0, (r < 0) != (b.term < 0))
        return BV(z3.If(adj, r + b.term, r), dt)

    def __pow__(self, o):
        if isinstance(o, ZA):
            r = self._with_int64_array_elem(o, 'pow')
            if r is not None:
                return r
        c = self._coerce(o)
        if c is None:
            return NotImplemented
        a, b, dt = c
        e = ctx().concretize(b.term)
        if dt.kind == 'i' and e >= 2 ** (dt.itemsize * 8 - 1):
            raise ValueError('Integers to negative integer powers are not allowed.')
        out = z3.BitVecVal(1, dt.itemsize * 8)
        for _ in range(e):
            out = out * a.term
        return BV(out, dt)

    def __rpow__(self, base):
        """concrete base ** symbolic sized int: 2**e stays symbolic as a shift, other bases fork over e"""
        if isinstance(base, (int, np.integer)) and not isinstance(base, bool):
            # numpy hands its own scalar over as a Python int: the exponent's dtype decides
            dt = np.result_type(base.dtype, self.dtype) if isinstance(base, np.integer) else self.dtype
            if dt.kind not in 'iu':
                raise TypeError('ufunc power not supported for the input types (%s, %s)' % (base.dtype, self.dtype))
            e = self.cast(dt)
            if int(base) == 2:
                one = z3.BitVecVal(1, dt.itemsize * 8)
                return BV(z3.If(z3.ULT(e.term, dt.itemsize * 8), one << e.term, z3.BitVecVal(0, dt.itemsize * 8)), dt)
            k = ctx().concretize(e.term)
            return BV(z3.BitVecVal(int(base) ** k, dt.itemsize * 8), dt)
        return NotImplemented

    def _cmp(self, o, fs, fu):
        if isinstance(o, int) and not isinstance(o, bool):
            info = np.iinfo(self.dtype)
            if not (info.min <= o <= info.max):
                # NEP 50 comparisons with out-of-range python ints are decided exactly
                z = self.as_Z()
                return None, z, o
        c = self._coerce(o)
        if c is None:
            return NotImplemented, None, None
        a, b, dt = c
        return B((fs if dt.kind == 'i' else fu)(a.term, b.term)), None, None

    def _cmpop(self, o, name, fs, fu):
        r, z, oo = self._cmp(o, fs, fu)
        if r is None:
            return getattr(z, name)(oo)
        return r

    def __lt__(self, o):
        return self._cmpop(o, '__lt__', lambda a, b: a < b, z3.ULT)

    def __le__(self, o):
        return self._cmpop(o, '__le__', lambda a, b: a <= b, z3.ULE)

    def __gt__(self, o):
        return self._cmpop(o, '__gt__', lambda a, b: a > b, z3.UGT)

    def __ge__(self, o):
        return self._cmpop(o, '__ge__', lambda a, b: a >= b, z3.UGE)

    def __eq__(self, o):
        return self._cmpop(o, '__eq__', lambda a, b: a == b, lambda a, b: a == b)

    def __ne__(self, o):
        return self._cmpop(o, '__ne__', lambda a, b: a != b, lambda a, b: a != b)

    __hash__ = None

    def __bool__(self):
        return bool(self != 0)

    def __index__(self):
        return self.as_Z().concretize()

    def __int__(self):
        return self.as_Z().concretize()

    def __float__(self):
        raise Unsupported('float() of a symbolic sized integer')

    def __repr__(self):
        s = str(z3.simplify(self.term))
        return 'BV%d%s<%s>' % (self.bits, 'i' if self.signed else 'u', s if len(s) < 50 else s[:47] + '...')


class ZA(Z):
    """an element of an array numpy would have typed int64 (numpy.array over Python ints).  It is an
    exact integer like Z; the one difference is NumPy's promotion rule for int64 <op> uint64 scalar,
    which is float64 - the result is then a *binary64* value (pathsym.fp.F64), with the rounding the
    real library performs, instead of an exact integer."""
    __slots__ = ()

    def _f64(self):
        from .fp import F64
        return F64.lift(float(self.concretize()))

    @staticmethod
    def _is_u8(o):
        return isinstance(o, np.unsignedinteger) and o.dtype.itemsize == 8

    def _bin(self, o, fc, fs):
        if isinstance(o, BV):
            return NotImplemented        # the sized scalar's reflected method applies NumPy promotion
        return Z._bin(self, o, fc, fs)

    def _fbin(self, o, name, swap=False):
        from .fp import F64
        a, b = self._f64(), F64.lift(float(o))
        if swap:
            a, b = b, a
        return getattr(a, name)(b)

    def __add__(self, o):
        return self._fbin(o, '__add__') if self._is_u8(o) else Z.__add__(self, o)

    def __radd__(self, o):
        return self._fbin(o, '__add__', True) if self._is_u8(o) else Z.__radd__(self, o)

    def __sub__(self, o):
        return self._fbin(o, '__sub__') if self._is_u8(o) else Z.__sub__(self, o)

    def __rsub__(self, o):
        return self._fbin(o, '__sub__', True) if self._is_u8(o) else Z.__rsub__(self, o)

    def __mul__(self, o):
        return self._fbin(o, '__mul__') if self._is_u8(o) else Z.__mul__(self, o)

    def __rmul__(self, o):
        return self._fbin(o, '__mul__', True) if self._is_u8(o) else Z.__rmul__(self, o)

    def __pow__(self, o):
        if self._is_u8(o):
            from .fp import F64
            return F64.lift(float(self.concretize()) ** float(o))
        return Z.__pow__(self, o)

    def __rpow__(self, base):
        if self._is_u8(base):
            from .fp import F64
            return F64.lift(float(base) ** float(self.concretize()))
        return Z.__rpow__(self, base)


def is_sym(x):
    return isinstance(x, Sym)


def zt(x):
    """z3 term of any scalar (for harness assertions)."""
    if isinstance(x, (R, Z)):
        return x.z3()
    if isinstance(x, B):
        return x.z3()
    if isinstance(x, BV):
        return x.term
    if isinstance(x, (bool, np.bool_)):
        return z3.BoolVal(bool(x))
    if isinstance(x, (int, np.integer)):
        return z3.IntVal(int(x))
    if isinstance(x, (float, np.floating, Fraction)):
        return _rterm(_frac(x))
    raise TypeError(type(x))


# =====================================================================================
# ZB: a Python int known to lie in a bounded range, held as a wide (128-bit) signed
# bit-vector so that it can meet numpy's sized integers without Int<->BV conversions
# =====================================================================================
ZB_BITS = 128


class ZB(Z):
    """python int backed by a signed 128-bit vector (harness guarantees no 128-bit overflow:
    inputs are int64-bounded and pydl only adds/subtracts small constants before converting)."""
    __slots__ = ()

    def __init__(self, term):
        if isinstance(term, (int, np.integer)):
            term = z3.BitVecVal(int(term), ZB_BITS)
        self.v = term

    def is_concrete(self):
        return z3.is_bv_value(z3.simplify(self.v))

    def z3(self):
        return z3.BV2Int(self.v, is_signed=True)

    def concretize(self):
        val = ctx().concretize(self.v)
        return val - (1 << ZB_BITS) if val >= (1 << (ZB_BITS - 1)) else val

    @staticmethod
    def _w(o):
        if isinstance(o, ZB):
            return o.v
        if isinstance(o, Z):
            if isinstance(o.v, int):
                return z3.BitVecVal(o.v, ZB_BITS)
            raise Unsupported('bounded int mixed with unbounded symbolic int')
        if isinstance(o, (bool, np.bool_, int, np.integer)):
            return z3.BitVecVal(int(o), ZB_BITS)
        if isinstance(o, B):
            return z3.If(o.z3(), z3.BitVecVal(1, ZB_BITS), z3.BitVecVal(0, ZB_BITS))
        return None

    def _ar(self, o, f, swap=False):
        if isinstance(o, (float, np.floating, Fraction, R)):
            raise Unsupported('bounded int in real arithmetic')
        w = ZB._w(o)
        if w is None:
            return NotImplemented
        return ZB(f(w, self.v) if swap else f(self.v, w))

    def __add__(self, o):
        return self._ar(o, lambda a, b: a + b)
    __radd__ = __add__

    def __sub__(self, o):
        return self._ar(o, lambda a, b: a - b)

    def __rsub__(self, o):
        return self._ar(o, lambda a, b: a - b, swap=True)

    def __mul__(self, o):
        return self._ar(o, lambda a, b: a * b)
    __rmul__ = __mul__

    def __neg__(self):
        return ZB(-self.v)

    def __abs__(self):
        return ZB(z3.If(self.v < 0, -self.v, self.v))

    def __floordiv__(self, o):
        raise Unsupported('floor division of a bounded symbolic int')

    __mod__ = __rfloordiv__ = __rmod__ = __truediv__ = __rtruediv__ = __floordiv__

    # bitwise operators on Python ints (two's complement of unbounded width = sign-extended vector)
    def __and__(self, o):
        return self._ar(o, lambda a, b: a & b)
    __rand__ = __and__

    def __or__(self, o):
        return self._ar(o, lambda a, b: a | b)
    __ror__ = __or__

    def __xor__(self, o):
        return self._ar(o, lambda a, b: a ^ b)
    __rxor__ = __xor__

    def __invert__(self):
        return ZB(~self.v)

    def __lshift__(self, n):
        if isinstance(n, Z):
            n = n.concretize()
        return ZB(self.v << int(n))

    def __rshift__(self, n):
        if isinstance(n, Z):
            n = n.concretize()
        return ZB(self.v >> int(n))

    def _cmp(self, o, op):
        w = ZB._w(o)
        if w is None:
            return NotImplemented
        return B(getattr(self.v, op)(w))

    def to_bv(self, dt):
        """numpy conversion of this Python int to a sized dtype (OverflowError if it does not fit)."""
        info = np.iinfo(dt)
        lo, hi = z3.BitVecVal(int(info.min), ZB_BITS), z3.BitVecVal(int(info.max), ZB_BITS)
        if bool(B(z3.Or(self.v < lo, self.v > hi))):
            raise OverflowError('Python integer out of bounds for %s' % dt)
        return BV(z3.Extract(dt.itemsize * 8 - 1, 0, self.v), dt)

    def __repr__(self):
        return 'ZB(%s)' % (z3.simplify(self.v),)
