"""Run-time helpers the instrumented pydl code calls (`_sx.*`).  Every helper is the identity
operation on concrete values; symbolic values are routed to their implementation."""
import builtins
import importlib
import operator
import numpy as np

from . import core
from .core import R, Z, B, BV, Sym, Unsupported, ite

COUNTS = {'call': 0, 'getitem': 0, 'setitem': 0, 'import': 0, 'dtype': 0, 'contains': 0}

# ---------------------------------------------------------------- import overrides
IMPORTS = {}          # 'numpy' -> module-like;  ('scipy.linalg','cholesky_banded') -> callable


def import_(modname, attr=None):
    COUNTS['import'] += 1
    if attr is not None and (modname, attr) in IMPORTS:
        return IMPORTS[(modname, attr)]
    if modname in IMPORTS:
        m = IMPORTS[modname]
        return m if attr is None else getattr(m, attr)
    m = importlib.import_module(modname)
    if attr is None:
        return m
    try:
        return getattr(m, attr)
    except AttributeError:
        return importlib.import_module(modname + '.' + attr)


# ---------------------------------------------------------------- symbolic object registry
def _symbolic_array(a):
    return type(a) is np.ndarray and a.dtype == object


def _has_sym(x):
    if isinstance(x, Sym):
        return True
    if _symbolic_array(x):
        return True
    if isinstance(x, (list, tuple)):
        return any(_has_sym(e) for e in x)
    return _is_sstr(x)


def _is_sstr(x):
    from . import sstr
    return isinstance(x, sstr.SStr)


# ---------------------------------------------------------------- 1. method calls
def call(obj, name, *args, **kw):
    COUNTS['call'] += 1
    if not core.active():
        return getattr(obj, name)(*args, **kw)
    from . import symnp
    if obj is symnp.np_proxy:
        if name in symnp._SCALAR_TYPES:
            return symnp.scalar_ctor(name, *args, **kw)
        if name == 'recarray':
            return symnp.recarray(*args, **kw)
    if _symbolic_array(obj):
        h = symnp.ARRAY_METHODS.get(name)
        if h is not None:
            return h(obj, *args, **kw)
    elif isinstance(obj, (str, bytes)):
        if any(_has_sym(a) for a in args) or any(_has_sym(v) for v in kw.values()):
            from . import sstr
            return sstr.str_method(obj, name, *args, **kw)
    elif isinstance(obj, np.ndarray):
        from . import symnp
        h = symnp.CONCRETE_ARRAY_METHODS.get(name)
        if h is not None:
            return h(obj, *args, **kw)
    elif isinstance(obj, (list, dict)) and name in ('index', 'count', 'get', 'pop', 'setdefault', 'remove'):
        from . import sstr
        r = sstr.container_method(obj, name, *args, **kw)
        if r is not sstr.NOT_HANDLED:
            return r
    return getattr(obj, name)(*args, **kw)


# ---------------------------------------------------------------- 4. subscripts
def getitem(obj, idx):
    COUNTS['getitem'] += 1
    if core.active():
        if isinstance(obj, dict) and _is_sstr(idx):
            from . import sstr
            return sstr.dict_get(obj, idx)
        if isinstance(obj, (list, tuple, str)) and isinstance(idx, (Z, BV)):
            idx = int(idx)
        if isinstance(idx, np.ndarray) and idx.dtype == object:
            from . import symnp
            idx = symnp.index_array(idx)
    return obj[idx]


def setitem(obj, idx, val):
    COUNTS['setitem'] += 1
    if core.active():
        if isinstance(obj, dict) and _is_sstr(idx):
            from . import sstr
            return sstr.dict_set(obj, idx, val)
        if isinstance(idx, np.ndarray) and idx.dtype == object:
            from . import symnp
            idx = symnp.index_array(idx)
        if type(obj) is np.ndarray and obj.dtype.kind in 'iu' and isinstance(val, Z) and not isinstance(val, BV):
            # a Python int (symbolic) stored into a concrete integer array: concretised on demand (forks over its values)
            val = val.concretize()
        if type(obj) is np.ndarray and obj.dtype != object and _has_sym(val):
            conc = _concrete_floats(val) if getattr(core.ctx(), 'mode', 'exact') == 'mixed' and obj.dtype.kind == 'f' else None
            if conc is None:
                raise Unsupported('store of a symbolic value into a concrete %s array' % obj.dtype)
            val = conc       # mixed mode: concrete exact values are rounded to the destination's doubles
        if type(obj) is np.ndarray and obj.dtype == object:
            from . import symnp
            val = symnp.coerce_for_store(obj, idx, val)
    obj[idx] = val


def _concrete_floats(val):
    """exact but fully concrete value(s) -> float / float array, None if anything is symbolic"""
    if isinstance(val, R):
        return float(val.v) if val.is_concrete() else None
    if isinstance(val, np.ndarray) and val.dtype == object:
        out = np.empty(val.shape, dtype=float)
        flat = out.reshape(-1)
        for i, e in enumerate(val.reshape(-1)):
            if isinstance(e, R):
                if not e.is_concrete():
                    return None
                flat[i] = float(e.v)
            elif isinstance(e, (int, float, np.number)):
                flat[i] = float(e)
            else:
                return None
        return out
    return None


def delitem(obj, idx):
    if core.active() and isinstance(obj, dict) and _is_sstr(idx):
        from . import sstr
        return sstr.dict_del(obj, idx)
    del obj[idx]


def augitem(obj, idx, opname, val):
    cur = getitem(obj, idx)
    new = getattr(operator, opname)(cur, val)
    setitem(obj, idx, new)


# ---------------------------------------------------------------- 3. membership
def contains(container, item):
    COUNTS['contains'] += 1
    if core.active():
        from . import sstr
        r = sstr.contains(container, item)
        if r is not sstr.NOT_HANDLED:
            return r
    return item in container


def not_(x):
    if isinstance(x, B):
        return ~x
    return not x


# ---------------------------------------------------------------- 2. formatting
def fstr(*parts):
    symbolic = core.active() and any(isinstance(p, tuple) and _has_sym(p[0]) for p in parts)
    if not symbolic:
        out = []
        for p in parts:
            if isinstance(p, tuple):
                v, conv, spec = p
                if conv == ord('r'):
                    v = repr(v)
                elif conv == ord('s'):
                    v = builtins.str(v)
                elif conv == ord('a'):
                    v = ascii(v)
                out.append(format(v, spec))
            else:
                out.append(p)
        return ''.join(out)
    from . import sstr
    return sstr.fstr(parts)


def mod(fmt, arg):
    if core.active() and _has_sym(arg):
        from . import sstr
        return sstr.percent_format(fmt, arg)
    return fmt % arg


# ---------------------------------------------------------------- decimal literals
def flit(v):
    if core.active() and getattr(core.ctx(), 'mode', 'exact') == 'exact':
        from fractions import Fraction
        return R(Fraction(repr(v)))
    return v


# ---------------------------------------------------------------- bitwise operators
def bitop(opname, a, b):
    """a & b, a | b, a ^ b, and (rewrite 9b) a + b, a - b, a * b, a ** b, a << b, a >> b, a // b.
    numpy hands a sized scalar to an object array as a plain Python int, which would lose its dtype
    (and with it numpy's promotion rules): keep it as a typed constant."""
    if isinstance(a, np.integer) or isinstance(b, np.integer):
        if core.active():
            if _symbolic_array(a) and isinstance(b, np.integer):
                b = BV(int(b), b.dtype)
            elif _symbolic_array(b) and isinstance(a, np.integer):
                a = BV(int(a), a.dtype)
    return _OPS[opname](a, b)


_OPS = {n: getattr(operator, n) for n in ('and_', 'or_', 'xor', 'add', 'sub', 'mul', 'pow', 'lshift', 'rshift', 'floordiv')}


# ---------------------------------------------------------------- 6. dtype
def dtype_of(x):
    COUNTS['dtype'] += 1
    if core.active() and type(x) is np.ndarray and x.dtype == object:
        from . import symnp
        return symnp.nominal_dtype(x)
    if isinstance(x, BV):
        return x.dtype
    if isinstance(x, (R, Z)):
        # R / Z stand for Python float / int scalars, which have no dtype
        raise AttributeError("'float' object has no attribute 'dtype'")
    return x.dtype


# ---------------------------------------------------------------- 7. builtins
class _ShadowMeta(type):
    def __call__(cls, *a, **k):
        return cls._call(*a, **k)

    def __instancecheck__(cls, obj):
        return cls._inst(obj)

    def __subclasscheck__(cls, sub):
        return issubclass(sub, cls._real)

    def __repr__(cls):
        return repr(cls._real)

    def __eq__(cls, other):
        return other is cls or other is cls._real

    def __hash__(cls):
        return hash(cls._real)


def _sstr_mod():
    from . import sstr
    return sstr


class s_int(metaclass=_ShadowMeta):
    _real = builtins.int

    @staticmethod
    def _inst(obj):
        if isinstance(obj, Z):
            return True
        if isinstance(obj, B):
            return False
        return isinstance(obj, builtins.int)

    @staticmethod
    def _call(x=0, *a):
        if isinstance(x, Z):
            return x
        if isinstance(x, R):
            return x.trunc_int() if not x.is_concrete() else builtins.int(x.v)
        if isinstance(x, BV):
            return x.as_Z()
        if isinstance(x, B):
            return x.as_int()
        if _is_sstr(x):
            return _sstr_mod().to_int(x, *a)
        return builtins.int(x, *a)


class s_float(metaclass=_ShadowMeta):
    _real = builtins.float

    @staticmethod
    def _inst(obj):
        if isinstance(obj, R):
            return True
        return isinstance(obj, builtins.float)

    @staticmethod
    def _call(x=0.0):
        if isinstance(x, R):
            return x
        if isinstance(x, (Z, B)):
            return R.lift(x)
        if isinstance(x, BV):
            return R.lift(x.as_Z())
        if _is_sstr(x):
            return _sstr_mod().to_float(x)
        return builtins.float(x)


class s_str(metaclass=_ShadowMeta):
    _real = builtins.str

    @staticmethod
    def _inst(obj):
        if _is_sstr(obj):
            return not obj.is_bytes
        return isinstance(obj, builtins.str)

    @staticmethod
    def _call(x='', *a, **k):
        if isinstance(x, Sym) or _is_sstr(x) or (core.active() and _has_sym(x)):
            return _sstr_mod().to_str(x)
        return builtins.str(x, *a, **k)

    # `str.join`-style unbound use is not present in pydl


class s_bytes(metaclass=_ShadowMeta):
    _real = builtins.bytes

    @staticmethod
    def _inst(obj):
        if _is_sstr(obj):
            return obj.is_bytes
        return isinstance(obj, builtins.bytes)

    @staticmethod
    def _call(*a, **k):
        return builtins.bytes(*a, **k)


class s_bool(metaclass=_ShadowMeta):
    _real = builtins.bool

    @staticmethod
    def _inst(obj):
        if isinstance(obj, B):
            return True
        return isinstance(obj, builtins.bool)

    @staticmethod
    def _call(x=False):
        if isinstance(x, B):
            return builtins.bool(x)
        return builtins.bool(x)


_SHADOW_BY_REAL = {builtins.int: s_int, builtins.float: s_float, builtins.str: s_str,
                   builtins.bool: s_bool, builtins.bytes: s_bytes}


def s_isinstance(obj, cls):
    if isinstance(cls, tuple):
        return any(s_isinstance(obj, c) for c in cls)
    sh = _SHADOW_BY_REAL.get(cls) if isinstance(cls, type) and not isinstance(cls, _ShadowMeta) else None
    if sh is not None:
        return sh._inst(obj)
    if cls is np.ndarray and _is_struct(obj):
        return True
    if cls is np.bytes_ and _is_sstr(obj):
        return obj.is_bytes
    return isinstance(obj, cls)


def _is_struct(obj):
    from . import symnp
    return isinstance(obj, symnp.SymRec)


def s_len(x):
    return len(x)


def s_range(*args):
    a = [builtins.int(v) if isinstance(v, (Z, BV)) else
         (v if not isinstance(v, R) else _r_to_int_for_range(v)) for v in args]
    return range(*a)


def _r_to_int_for_range(v):
    raise TypeError("'float' object cannot be interpreted as an integer")


def _minmax(args, key, pick_first_if):
    if len(args) == 1:
        args = list(args[0])
    if not any(isinstance(a, Sym) for a in args):
        return None
    best = args[0]
    for a in args[1:]:
        best = ite(pick_first_if(a, best), a, best)
    return best


def s_min(*args, **kw):
    r = _minmax(args, None, lambda a, b: a < b) if not kw else None
    if r is None:
        return builtins.min(*args, **kw)
    return r


def s_max(*args, **kw):
    r = _minmax(args, None, lambda a, b: a > b) if not kw else None
    if r is None:
        return builtins.max(*args, **kw)
    return r


def s_abs(x):
    return abs(x)


def s_sum(it, start=0):
    it = list(it)
    if any(isinstance(a, B) for a in it):
        tot = start
        for a in it:
            tot = tot + (a.as_int() if isinstance(a, B) else a)
        return tot
    return builtins.sum(it, start)


def s_round(x, *a):
    if isinstance(x, R) and not x.is_concrete():
        raise Unsupported('round() of a symbolic real')
    return builtins.round(x, *a)


BUILTIN_SHADOWS = {
    'isinstance': s_isinstance, 'int': s_int, 'float': s_float, 'str': s_str, 'bool': s_bool,
    'bytes': s_bytes,
    'range': s_range, 'min': s_min, 'max': s_max, 'sum': s_sum, 'round': s_round,
}
