"""pytest plugin: run the repository's own tests against the instrumented pydl modules
(translation validation of the loader: same pass set as the baseline is required)."""
from pathsym import loader, symnp


def pytest_configure(config):
    symnp.install_imports()
    from pathsym import symre
    symre.install()
    loader.install()


def pytest_unconfigure(config):
    import json, os
    from pathsym import sx
    out = os.environ.get('PATHSYM_TV_STATS')
    if out:
        with open(out, 'w') as f:
            json.dump({'static': {k: v for k, v in loader.STATS.items() if k != 'modules'},
                       'modules': sorted(set(loader.STATS['modules'])), 'dynamic': sx.COUNTS}, f)
