"""Regular expressions over symbolic strings.  The SAME pattern strings that pydl passes to `re`
are parsed with the standard library's own parser (re._parser) and interpreted by a backtracking
matcher with CPython's greedy / leftmost semantics and group capture.  On concrete characters it
compares directly; on a symbolic code point every test is a solver decision (fork).  A plain
`str` subject is handed to the real `re` module.  Constructs outside the supported subset raise
Unsupported (-> inconclusive)."""
import re as _re
try:
    import re._parser as _parser
    import re._constants as _c
except ImportError:          # pragma: no cover  (python < 3.11)
    import sre_parse as _parser
    import sre_constants as _c

import z3

from . import core
from .core import B, Unsupported
from .sstr import SStr, _is_sym, WHITESPACE

error = _re.error
IGNORECASE = _re.IGNORECASE
I = _re.I
MULTILINE = _re.MULTILINE
M = _re.M
DOTALL = _re.DOTALL
S = _re.S
VERBOSE = _re.VERBOSE
escape = _re.escape

_WORD = [95] + list(range(48, 58)) + list(range(65, 91)) + list(range(97, 123))
_DIGIT = list(range(48, 58))


def _cat(cat, c):
    if cat == _c.CATEGORY_SPACE:
        return SStr.is_space(c)
    if cat == _c.CATEGORY_NOT_SPACE:
        return not SStr.is_space(c)
    if cat == _c.CATEGORY_DIGIT:
        return SStr.char_in(c, _DIGIT)
    if cat == _c.CATEGORY_NOT_DIGIT:
        return not SStr.char_in(c, _DIGIT)
    if cat == _c.CATEGORY_WORD:
        return SStr.char_in(c, _WORD)
    if cat == _c.CATEGORY_NOT_WORD:
        return not SStr.char_in(c, _WORD)
    raise Unsupported('regex category %s' % cat)


def _in_set(items, c):
    neg = False
    for op, av in items:
        if op == _c.NEGATE:
            neg = True
    hit = False
    for op, av in items:
        if op == _c.NEGATE:
            continue
        if op == _c.LITERAL:
            if SStr.char_eq(c, chr(av)):
                hit = True
                break
        elif op == _c.RANGE:
            if SStr.char_in(c, range(av[0], av[1] + 1)):
                hit = True
                break
        elif op == _c.CATEGORY:
            if _cat(av, c):
                hit = True
                break
        else:
            raise Unsupported('regex set item %s' % op)
    return hit != neg


class SMatch(object):
    def __init__(self, subject, start, end, groups, ngroups):
        self.string = subject
        self._start, self._end = start, end
        self._groups = groups
        self._n = ngroups

    def _span(self, i):
        if i == 0:
            return (self._start, self._end)
        return self._groups.get(i, (None, None))

    def group(self, *idx):
        if not idx:
            idx = (0,)
        out = []
        for i in idx:
            a, b = self._span(i)
            out.append(None if a is None else self.string[a:b])
        return out[0] if len(out) == 1 else tuple(out)

    def groups(self, default=None):
        return tuple((self.group(i) if self._span(i)[0] is not None else default) for i in range(1, self._n + 1))

    def start(self, i=0):
        return self._span(i)[0]

    def end(self, i=0):
        return self._span(i)[1]

    def span(self, i=0):
        return self._span(i)

    def __getitem__(self, i):
        return self.group(i)


class SPattern(object):
    def __init__(self, pattern, flags=0):
        self.pattern = pattern
        self.flags = flags
        self._real = _re.compile(pattern, flags)
        self.groups = self._real.groups
        if flags & ~(_re.UNICODE):
            self._tree = None
        else:
            self._tree = _parser.parse(pattern, flags)

    # ---------------------------------------------------------------- matcher
    def _m(self, nodes, k, s, pos, groups, cont):
        """match nodes[k:] at pos; call cont(pos, groups) on success; returns truthy result or None"""
        if k == len(nodes):
            return cont(pos, groups)
        op, av = nodes[k]
        items = s.items
        n = len(items)
        if op == _c.LITERAL:
            if pos < n and SStr.char_eq(items[pos], chr(av)):
                return self._m(nodes, k + 1, s, pos + 1, groups, cont)
            return None
        if op == _c.NOT_LITERAL:
            if pos < n and not SStr.char_eq(items[pos], chr(av)):
                return self._m(nodes, k + 1, s, pos + 1, groups, cont)
            return None
        if op == _c.ANY:
            if pos < n and not SStr.char_eq(items[pos], '\n'):
                return self._m(nodes, k + 1, s, pos + 1, groups, cont)
            return None
        if op == _c.IN:
            if pos < n and _in_set(av, items[pos]):
                return self._m(nodes, k + 1, s, pos + 1, groups, cont)
            return None
        if op == _c.CATEGORY:
            if pos < n and _cat(av, items[pos]):
                return self._m(nodes, k + 1, s, pos + 1, groups, cont)
            return None
        if op == _c.AT:
            if av == _c.AT_BEGINNING or av == _c.AT_BEGINNING_STRING:
                ok = pos == 0
            elif av == _c.AT_END:
                ok = pos == n or (pos == n - 1 and SStr.char_eq(items[pos], '\n'))
            elif av == _c.AT_END_STRING:
                ok = pos == n
            else:
                raise Unsupported('regex anchor %s' % av)
            return self._m(nodes, k + 1, s, pos, groups, cont) if ok else None
        if op == _c.SUBPATTERN:
            gid, add_flags, del_flags, sub = av
            if add_flags or del_flags:
                raise Unsupported('inline regex flags')
            sub = list(sub)

            def after(p2, g2, _pos=pos):
                if gid is not None:
                    g2 = dict(g2)
                    g2[gid] = (_pos, p2)
                return self._m(nodes, k + 1, s, p2, g2, cont)
            return self._m(sub, 0, s, pos, groups, after)
        if op == _c.BRANCH:
            _, alts = av
            for alt in alts:
                r = self._m(list(alt), 0, s, pos, groups, lambda p2, g2: self._m(nodes, k + 1, s, p2, g2, cont))
                if r is not None:
                    return r
            return None
        if op in (_c.ASSERT, _c.ASSERT_NOT):
            direction, sub = av
            if direction != 1:
                raise Unsupported('regex look-behind')
            r = self._m(list(sub), 0, s, pos, groups, lambda p2, g2: (p2, g2))
            ok = (r is not None) if op == _c.ASSERT else (r is None)
            return self._m(nodes, k + 1, s, pos, groups, cont) if ok else None
        if op in (_c.MAX_REPEAT, _c.MIN_REPEAT):
            lo, hi, sub = av
            sub = list(sub)
            hi = None if hi == _c.MAXREPEAT else hi
            greedy = op == _c.MAX_REPEAT

            def rest(p2, g2):
                return self._m(nodes, k + 1, s, p2, g2, cont)

            def rep(count, p, g):
                def more(p2, g2):
                    if p2 == p and count >= lo:
                        return None          # empty iteration: stop (as sre does)
                    return rep(count + 1, p2, g2)
                can_more = hi is None or count < hi
                if count < lo:
                    return self._m(sub, 0, s, p, g, more)
                if greedy:
                    if can_more:
                        r = self._m(sub, 0, s, p, g, more)
                        if r is not None:
                            return r
                    return rest(p, g)
                r = rest(p, g)
                if r is not None:
                    return r
                if can_more:
                    return self._m(sub, 0, s, p, g, more)
                return None
            return rep(0, pos, groups)
        raise Unsupported('regex construct %s' % op)

    def _match_at(self, s, pos, full=False):
        nodes = list(self._tree)

        def done(p2, g2):
            if full and p2 != len(s.items):
                return None
            return (p2, g2)
        r = self._m(nodes, 0, s, pos, {}, done)
        if r is None:
            return None
        return SMatch(s, pos, r[0], r[1], self.groups)

    def _sym(self, string):
        if isinstance(string, SStr):
            if self._tree is None:
                raise Unsupported('regex flags on a symbolic subject')
            return True
        return False

    # ---------------------------------------------------------------- API
    def match(self, string, pos=0):
        if not self._sym(string):
            return self._real.match(string, pos)
        return self._match_at(string, pos)

    def fullmatch(self, string):
        if not self._sym(string):
            return self._real.fullmatch(string)
        return self._match_at(string, 0, full=True)

    def search(self, string, pos=0):
        if not self._sym(string):
            return self._real.search(string, pos)
        # an anchored pattern can only match at 0
        first = self._tree[0] if len(self._tree) else None
        anchored = first is not None and first[0] == _c.AT and first[1] in (_c.AT_BEGINNING, _c.AT_BEGINNING_STRING)
        for p in range(pos, len(string.items) + 1):
            m = self._match_at(string, p)
            if m is not None:
                return m
            if anchored:
                break
        return None

    def finditer(self, string):
        if not self._sym(string):
            return self._real.finditer(string)
        out = []
        p = 0
        n = len(string.items)
        while p <= n:
            m = self._match_at(string, p)
            if m is None:
                p += 1
                continue
            out.append(m)
            p = m.end() if m.end() > m.start() else m.end() + 1
        return iter(out)

    def findall(self, string):
        if not self._sym(string):
            return self._real.findall(string)
        res = []
        for m in self.finditer(string):
            if self.groups == 0:
                res.append(m.group(0))
            elif self.groups == 1:
                res.append(m.group(1))
            else:
                res.append(m.groups(''))
        return res

    def sub(self, repl, string, count=0):
        if not self._sym(string):
            if isinstance(repl, SStr):
                raise Unsupported('symbolic replacement text')
            return self._real.sub(repl, string, count)
        if callable(repl) or (isinstance(repl, str) and '\\' in repl):
            raise Unsupported('regex replacement with back-references')
        out = []
        last = 0
        n = 0
        for m in self.finditer(string):
            if count and n >= count:
                break
            out.extend(string.items[last:m.start()])
            out.extend(SStr.lift(repl).items)
            last = m.end()
            n += 1
        out.extend(string.items[last:])
        return SStr.mk(out, string.is_bytes)

    def split(self, string, maxsplit=0):
        if not self._sym(string):
            return self._real.split(string, maxsplit)
        out = []
        last = 0
        n = 0
        for m in self.finditer(string):
            if maxsplit and n >= maxsplit:
                break
            out.append(SStr.mk(string.items[last:m.start()], string.is_bytes))
            for g in range(1, self.groups + 1):
                out.append(m.group(g))
            last = m.end()
            n += 1
        out.append(SStr.mk(string.items[last:], string.is_bytes))
        return out


_cache = {}


def compile(pattern, flags=0):
    if isinstance(pattern, SPattern):
        return pattern
    if isinstance(pattern, SStr):
        raise Unsupported('symbolic regular expression')
    key = (pattern, flags)
    if key not in _cache:
        _cache[key] = SPattern(pattern, flags)
    return _cache[key]


def search(pattern, string, flags=0):
    return compile(pattern, flags).search(string)


def match(pattern, string, flags=0):
    return compile(pattern, flags).match(string)


def fullmatch(pattern, string, flags=0):
    return compile(pattern, flags).fullmatch(string)


def findall(pattern, string, flags=0):
    return compile(pattern, flags).findall(string)


def finditer(pattern, string, flags=0):
    return compile(pattern, flags).finditer(string)


def sub(pattern, repl, string, count=0, flags=0):
    return compile(pattern, flags).sub(repl, string, count)


def split(pattern, string, maxsplit=0, flags=0):
    return compile(pattern, flags).split(string, maxsplit)


def install():
    import sys
    from . import sx
    sx.IMPORTS['re'] = sys.modules[__name__]
