"""Symbolic strings: a sequence of concrete characters and symbolic code points of CONCRETE
length.  Every predicate on a symbolic character is a solver decision (fork); a string whose
characters are all concrete is always returned as a plain Python str/bytes, so only the pieces
that actually contain symbolic characters travel as SStr."""
import builtins
import string as _string
import numpy as np
import z3

from . import core
from .core import B, Z, R, BV, Sym, Unsupported

NOT_HANDLED = object()

WHITESPACE = (9, 10, 11, 12, 13, 28, 29, 30, 31, 32)      # str.isspace() within ASCII


def _is_sym(c):
    return isinstance(c, z3.ExprRef)


def _code(c):
    return c if _is_sym(c) else z3.IntVal(ord(c))


class SStr(object):
    __slots__ = ('items', 'is_bytes')

    def __init__(self, items, is_bytes=False):
        self.items = tuple(items)
        self.is_bytes = is_bytes

    # ------------------------------------------------------------ construction helpers
    @staticmethod
    def mk(items, is_bytes=False):
        items = tuple(items)
        if all(not _is_sym(c) for c in items):
            s = ''.join(items)
            return s.encode('latin-1') if is_bytes else s
        return SStr(items, is_bytes)

    @staticmethod
    def lift(x):
        if isinstance(x, SStr):
            return x
        if isinstance(x, str):
            return SStr(tuple(x), False)
        if isinstance(x, (bytes, np.bytes_)):
            return SStr(tuple(bytes(x).decode('latin-1')), True)
        return None

    def concrete(self):
        """fork over the feasible values of every symbolic character -> python str"""
        out = []
        for c in self.items:
            out.append(chr(core.ctx().concretize(c)) if _is_sym(c) else c)
        s = ''.join(out)
        return s.encode('latin-1') if self.is_bytes else s

    def has_sym(self):
        return any(_is_sym(c) for c in self.items)

    # ------------------------------------------------------------ basics
    def __len__(self):
        return len(self.items)

    def __iter__(self):
        for c in self.items:
            yield SStr.mk((c,), self.is_bytes)

    def __getitem__(self, idx):
        if isinstance(idx, (Z, BV)):
            idx = int(idx)
        if isinstance(idx, slice):
            return SStr.mk(self.items[idx], self.is_bytes)
        return SStr.mk((self.items[idx],), self.is_bytes)

    def __add__(self, o):
        o2 = SStr.lift(o)
        if o2 is None:
            if isinstance(o, (Z, R, BV, B)):
                raise TypeError('can only concatenate str (not "number") to str')
            return NotImplemented
        return SStr.mk(self.items + o2.items, self.is_bytes)

    def __radd__(self, o):
        o2 = SStr.lift(o)
        if o2 is None:
            return NotImplemented
        return SStr.mk(o2.items + self.items, self.is_bytes)

    def __mul__(self, n):
        return SStr.mk(self.items * int(n), self.is_bytes)

    def eq_term(self, o):
        o2 = SStr.lift(o)
        if o2 is None or len(o2.items) != len(self.items):
            return z3.BoolVal(False)
        conj = []
        for a, b in zip(self.items, o2.items):
            if _is_sym(a) or _is_sym(b):
                conj.append(_code(a) == _code(b))
            elif a != b:
                return z3.BoolVal(False)
        return z3.And(conj) if conj else z3.BoolVal(True)

    def __eq__(self, o):
        if SStr.lift(o) is None:
            return B(False)
        t = z3.simplify(self.eq_term(o))
        if z3.is_true(t):
            return B(True)
        if z3.is_false(t):
            return B(False)
        return B(t)

    def __ne__(self, o):
        return ~self.__eq__(o)

    __hash__ = None

    def __bool__(self):
        return len(self.items) > 0

    def __repr__(self):
        return 'SStr<%s>' % ''.join(c if not _is_sym(c) else '·' for c in self.items)

    def __str__(self):
        raise Unsupported('builtin str() of a symbolic string (silent concretisation refused)')

    def __format__(self, spec):
        raise Unsupported('builtin format() of a symbolic string')

    def __contains__(self, sub):
        return self.find(sub) >= 0

    def __lt__(self, o):
        raise Unsupported('ordering of symbolic strings')

    __gt__ = __le__ = __ge__ = __lt__

    # ------------------------------------------------------------ character classes
    @staticmethod
    def char_eq(c, lit):
        """c == lit (lit a concrete 1-char str) -> python bool (may fork)"""
        if not _is_sym(c):
            return c == lit
        return builtins.bool(B(c == ord(lit)))

    @staticmethod
    def char_in(c, codes):
        if not _is_sym(c):
            return ord(c) in codes
        return builtins.bool(B(z3.Or([c == k for k in codes])))

    @staticmethod
    def is_space(c):
        if not _is_sym(c):
            return c.isspace()
        return SStr.char_in(c, WHITESPACE)

    # ------------------------------------------------------------ searching
    def _match_at(self, pos, sub):
        if pos + len(sub.items) > len(self.items):
            return False
        for k, s in enumerate(sub.items):
            a = self.items[pos + k]
            if _is_sym(a) or _is_sym(s):
                if not builtins.bool(B(_code(a) == _code(s))):
                    return False
            elif a != s:
                return False
        return True

    def find(self, sub, start=0, end=None):
        sub = SStr.lift(sub)
        n = len(self.items) if end is None else min(end, len(self.items))
        for i in range(start, n - len(sub.items) + 1):
            if self._match_at(i, sub):
                return i
        return -1

    def rfind(self, sub, start=0, end=None):
        sub = SStr.lift(sub)
        n = len(self.items) if end is None else min(end, len(self.items))
        for i in range(n - len(sub.items), start - 1, -1):
            if self._match_at(i, sub):
                return i
        return -1

    def index(self, sub, *a):
        r = self.find(sub, *a)
        if r < 0:
            raise ValueError('substring not found')
        return r

    def count(self, sub):
        sub = SStr.lift(sub)
        n, i = 0, 0
        while i <= len(self.items) - len(sub.items):
            if self._match_at(i, sub):
                n += 1
                i += max(1, len(sub.items))
            else:
                i += 1
        return n

    def startswith(self, pre):
        pre = SStr.lift(pre)
        return self._match_at(0, pre)

    def endswith(self, suf):
        suf = SStr.lift(suf)
        if len(suf.items) > len(self.items):
            return False
        return self._match_at(len(self.items) - len(suf.items), suf)

    # ------------------------------------------------------------ trimming / splitting
    def _strip_pred(self, chars):
        if chars is None:
            return SStr.is_space
        codes = [ord(c) for c in chars]
        return lambda c: SStr.char_in(c, codes)

    def lstrip(self, chars=None):
        p = self._strip_pred(chars)
        i = 0
        while i < len(self.items) and p(self.items[i]):
            i += 1
        return SStr.mk(self.items[i:], self.is_bytes)

    def rstrip(self, chars=None):
        p = self._strip_pred(chars)
        j = len(self.items)
        while j > 0 and p(self.items[j - 1]):
            j -= 1
        return SStr.mk(self.items[:j], self.is_bytes)

    def strip(self, chars=None):
        r = self.lstrip(chars)
        return r.rstrip(chars) if isinstance(r, SStr) else r.strip(chars)

    def split(self, sep=None, maxsplit=-1):
        out = []
        if sep is None:
            # CPython: runs of white space separate; after maxsplit splits the rest of the string is kept as it is,
            # minus its leading white space only
            cur = []
            items = self.items
            i, n = 0, len(items)
            while i < n:
                if maxsplit >= 0 and len(out) >= maxsplit and not cur:
                    while i < n and SStr.is_space(items[i]):
                        i += 1
                    if i < n:
                        out.append(SStr.mk(items[i:], self.is_bytes))
                    return out
                c = items[i]
                if SStr.is_space(c):
                    if cur:
                        out.append(SStr.mk(cur, self.is_bytes))
                        cur = []
                else:
                    cur.append(c)
                i += 1
            if cur:
                out.append(SStr.mk(cur, self.is_bytes))
            return out
        sep = SStr.lift(sep)
        i = 0
        start = 0
        n = 0
        while i <= len(self.items) - len(sep.items):
            if (maxsplit < 0 or n < maxsplit) and self._match_at(i, sep):
                out.append(SStr.mk(self.items[start:i], self.is_bytes))
                i += len(sep.items)
                start = i
                n += 1
            else:
                i += 1
        out.append(SStr.mk(self.items[start:], self.is_bytes))
        return out

    def splitlines(self):
        return [p for p in self.split('\n')]

    def replace(self, old, new, count=-1):
        old = SStr.lift(old)
        new = SStr.lift(new)
        if len(old.items) == 0:
            raise Unsupported('replace of the empty string')
        out = []
        i = 0
        n = 0
        while i < len(self.items):
            if (count < 0 or n < count) and self._match_at(i, old):
                out.extend(new.items)
                i += len(old.items)
                n += 1
            else:
                out.append(self.items[i])
                i += 1
        return SStr.mk(out, self.is_bytes)

    # ------------------------------------------------------------ case
    def upper(self):
        return SStr.mk([c.upper() if not _is_sym(c) else z3.If(z3.And(c >= 97, c <= 122), c - 32, c) for c in self.items], self.is_bytes)

    def lower(self):
        return SStr.mk([c.lower() if not _is_sym(c) else z3.If(z3.And(c >= 65, c <= 90), c + 32, c) for c in self.items], self.is_bytes)

    def title(self):
        raise Unsupported('title() of a symbolic string')

    def isdigit(self):
        return len(self.items) > 0 and all(SStr.char_in(c, range(48, 58)) for c in self.items)

    # ------------------------------------------------------------ bytes <-> str
    def decode(self, *a, **k):
        return SStr.mk(self.items, False)

    def encode(self, *a, **k):
        return SStr.mk(self.items, True)

    def format(self, *args, **kw):
        return format_string(self, args, kw)

    def join(self, parts):
        return join_strings(self, parts)


# ------------------------------------------------------------------------------------------ conversions
def to_str(x):
    if isinstance(x, SStr):
        return SStr.mk(x.items, False) if x.is_bytes else x
    if hasattr(x, 'digits') and isinstance(x, Z):
        return x.digits
    if isinstance(x, (Z, BV)):
        t = z3.simplify(x.z3() if isinstance(x, Z) else x.term)
        if z3.is_int_value(t):
            return builtins.str(t.as_long())
        if isinstance(x, BV) and z3.is_bv_value(t):
            return builtins.str(t.as_signed_long() if x.signed else t.as_long())
        return render_int(x if isinstance(x, Z) else x.as_Z())
    if isinstance(x, R) and x.is_concrete():
        return builtins.str(float(x.v))
    if isinstance(x, (list, tuple)):
        raise Unsupported('str() of a container holding symbolic values')
    if isinstance(x, Sym):
        raise Unsupported('str() of a symbolic %s' % type(x).__name__)
    return builtins.str(x)


def render_int(z, width=None):
    """decimal rendering of a symbolic int: forks on sign and number of digits (domain must be small)."""
    c = core.ctx()
    v = z.z3()
    neg = builtins.bool(B(v < 0))
    mag = -v if neg else v
    nd = 1
    while not builtins.bool(B(mag < 10 ** nd)):
        nd += 1
        if nd > 20:
            raise Unsupported('integer too wide to render')
    digits = []
    for k in range(nd - 1, -1, -1):
        d = (mag / (10 ** k)) % 10
        digits.append(z3.simplify(d + 48))
    items = (['-'] if neg else []) + [chr(t.as_long()) if z3.is_int_value(t) else t for t in digits]
    return SStr.mk(items)


def to_int(s, base=10):
    """python int(str): surrounding whitespace allowed, optional sign, digits; else ValueError."""
    s = SStr.lift(s)
    t = s.strip()
    t = SStr.lift(t)
    items = list(t.items)
    if not items:
        raise ValueError("invalid literal for int() with base 10: ''")
    neg = False
    if SStr.char_eq(items[0], '-'):
        neg = True
        items = items[1:]
    elif SStr.char_eq(items[0], '+'):
        items = items[1:]
    if not items:
        raise ValueError('invalid literal for int()')
    val = z3.IntVal(0)
    conc = 0
    allc = True
    for c in items:
        if not SStr.char_in(c, range(48, 58)):
            if _is_sym(c) is False and c == '_':
                raise ValueError('invalid literal for int()')
            raise ValueError('invalid literal for int() with base 10')
        if _is_sym(c):
            allc = False
            val = val * 10 + (c - 48)
        else:
            val = val * 10 + (ord(c) - 48)
            conc = conc * 10 + (ord(c) - 48)
    if allc:
        return Z(-conc if neg else conc)
    return Z(z3.simplify(-val if neg else val))


def to_float(s):
    s = SStr.lift(s)
    if s.has_sym():
        # a string of decimal digits only: the correctly rounded binary64 of the integer it spells (CPython and NumPy
        # parse decimal text with correct rounding); anything else (sign, point, exponent) is not modelled
        if not s.items or len(s.items) > 21 or not all(SStr.char_in(c, range(48, 58)) for c in s.items):
            raise Unsupported('float() of a symbolic string that is not all digits')
        from . import fp
        v = to_int(s)
        return fp.F64(z3.fpUnsignedToFP(fp.RM, z3.Int2BV(v.z3(), 72), fp.SORT))
    return float(''.join(s.items))


# ------------------------------------------------------------------------------------------ formatting
def _fmt_value(v, conv, spec):
    if isinstance(v, SStr):
        if spec not in ('', 's'):
            raise Unsupported('format spec %r on a symbolic string' % spec)
        return to_str(v)
    if isinstance(v, (Z, BV)):
        if spec in ('', 'd'):
            return to_str(v)
        m = None
        import re as _re
        m = _re.fullmatch(r'0?(\d+)d', spec)
        if m:
            s = to_str(v)
            w = int(m.group(1))
            pad = '0' if spec.startswith('0') else ' '
            if len(s) < w:
                s = SStr.mk(tuple(pad * (w - len(s))) + SStr.lift(s).items) if isinstance(s, SStr) else s.rjust(w, pad)
            return s
        raise Unsupported('format spec %r on a symbolic int' % spec)
    if isinstance(v, Sym):
        raise Unsupported('formatting of a symbolic %s' % type(v).__name__)
    if conv == 'r':
        v = repr(v)
    elif conv == 's':
        v = builtins.str(v)
    return format(v, spec)


def format_string(fmt, args, kw):
    fmt_s = SStr.lift(fmt)
    if fmt_s.has_sym():
        raise Unsupported('symbolic format string')
    fmt = ''.join(fmt_s.items)
    out = []
    auto = 0
    for lit, field, spec, conv in _string.Formatter().parse(fmt):
        out.extend(lit)
        if field is None:
            continue
        if field == '':
            v = args[auto]
            auto += 1
        elif field.isdigit():
            v = args[int(field)]
        else:
            name = field.split('.')[0].split('[')[0]
            v = kw[name] if name in kw else None
            if field != name:
                raise Unsupported('attribute/index lookup in a format field with symbolic arguments')
        piece = _fmt_value(v, conv, spec or '')
        out.extend(SStr.lift(piece).items if isinstance(piece, (SStr, str)) else builtins.str(piece))
    return SStr.mk(out)


def join_strings(sep, parts):
    sep = SStr.lift(sep)
    out = []
    first = True
    for p in parts:
        p2 = SStr.lift(p)
        if p2 is None:
            raise TypeError('sequence item: expected str instance')
        if not first:
            out.extend(sep.items)
        out.extend(p2.items)
        first = False
    return SStr.mk(out, sep.is_bytes)


def str_method(obj, name, *args, **kw):
    """a method of a CONCRETE str/bytes called with symbolic arguments"""
    if name == 'format':
        return format_string(obj, args, kw)
    if name == 'join':
        return join_strings(obj, list(args[0]))
    s = SStr(tuple(obj if isinstance(obj, str) else bytes(obj).decode('latin-1')), not isinstance(obj, str))
    if hasattr(s, name):
        return getattr(s, name)(*args, **kw)
    raise Unsupported('str.%s with symbolic arguments' % name)


def fstr(parts):
    out = []
    for p in parts:
        if isinstance(p, tuple):
            v, conv, spec = p
            piece = _fmt_value(v, {ord('r'): 'r', ord('s'): 's'}.get(conv), spec)
            out.extend(SStr.lift(piece).items)
        else:
            out.extend(p)
    return SStr.mk(out)


def percent_format(fmt, arg):
    args = arg if isinstance(arg, tuple) else (arg,)
    out = []
    i = 0
    k = 0
    while i < len(fmt):
        c = fmt[i]
        if c == '%' and i + 1 < len(fmt):
            j = i + 1
            while fmt[j] in '0123456789-+ #.':
                j += 1
            code = fmt[j]
            if code == '%':
                out.append('%')
            else:
                v = args[k]
                k += 1
                if isinstance(v, (SStr, Z, BV)) and code in 'sd':
                    out.extend(SStr.lift(to_str(v)).items)
                elif isinstance(v, Sym):
                    raise Unsupported('%-formatting of a symbolic value')
                else:
                    out.extend(('%' + fmt[i + 1:j + 1]) % v)
            i = j + 1
        else:
            out.append(c)
            i += 1
    return SStr.mk(out)


# ------------------------------------------------------------------------------------------ containers
def contains(container, item):
    if isinstance(container, SStr):
        return container.find(item) >= 0
    if isinstance(item, SStr):
        if isinstance(container, (str, bytes)):
            return SStr.lift(container).find(item) >= 0
        if isinstance(container, dict):
            return _dict_find(container, item) is not _MISSING
        if isinstance(container, (list, tuple, set, frozenset)):
            for e in container:
                if isinstance(e, (str, bytes, SStr)) and builtins.bool(item == e):
                    return True
            return False
        return NOT_HANDLED
    if isinstance(container, (list, tuple)) and any(isinstance(e, SStr) for e in container):
        for e in container:
            if isinstance(e, SStr):
                if isinstance(item, (str, bytes)) and builtins.bool(e == item):
                    return True
            elif e == item:
                return True
        return False
    if isinstance(container, dict) and isinstance(item, (str, bytes)) and any(isinstance(k, _Key) for k in container):
        return _dict_find(container, item) is not _MISSING
    return NOT_HANDLED


class _Key(object):
    """dict key wrapper for a symbolic string (identity hash; lookups go through _dict_find)"""
    __slots__ = ('s',)

    def __init__(self, s):
        self.s = s

    def __repr__(self):
        return '_Key(%r)' % (self.s,)


_MISSING = object()


def _dict_find(d, key):
    for k in list(d.keys()):
        kk = k.s if isinstance(k, _Key) else k
        if isinstance(kk, (str, bytes, SStr)):
            if isinstance(key, SStr) or isinstance(kk, SStr):
                if builtins.bool(SStr.lift(kk) == key):
                    return k
            elif kk == key:
                return k
    return _MISSING


def dict_get(d, key):
    k = _dict_find(d, key)
    if k is _MISSING:
        raise KeyError(key)
    return dict.__getitem__(d, k)


def dict_set(d, key, val):
    k = _dict_find(d, key)
    if k is _MISSING:
        k = _Key(key)
    dict.__setitem__(d, k, val)


def dict_del(d, key):
    k = _dict_find(d, key)
    if k is _MISSING:
        raise KeyError(key)
    dict.__delitem__(d, k)


def container_method(obj, name, *a, **k):
    if isinstance(obj, dict) and a and isinstance(a[0], SStr):
        if name == 'get':
            kk = _dict_find(obj, a[0])
            return (a[1] if len(a) > 1 else None) if kk is _MISSING else dict.__getitem__(obj, kk)
    if isinstance(obj, list) and name in ('index', 'count') and (isinstance(a[0], SStr) or any(isinstance(e, SStr) for e in obj)):
        if name == 'index':
            for i, e in enumerate(obj):
                if builtins.bool(SStr.lift(e) == a[0]) if isinstance(e, (str, SStr)) else e == a[0]:
                    return i
            raise ValueError('not in list')
        return builtins.sum(1 for e in obj if (builtins.bool(SStr.lift(e) == a[0]) if isinstance(e, (str, SStr)) else e == a[0]))
    return NOT_HANDLED


# ------------------------------------------------------------------------------------------ numpy string dtypes
def cast_str_elem(val, base):
    """store into an S<n>/U<n> field: truncated to n characters (numpy does so silently)."""
    n = base.itemsize if base.kind == 'S' else base.itemsize // 4
    s = SStr.lift(val if not isinstance(val, (Z, BV)) else to_str(val))
    if s is None:
        raise Unsupported('cannot store %r into a string field' % type(val).__name__)
    r = SStr.mk(s.items[:n], base.kind == 'S')
    return np.bytes_(r) if isinstance(r, bytes) else r


def cast_str_array(arr, base):
    out = np.empty(arr.shape, dtype=object)
    flat = out.reshape(-1)
    for i, e in enumerate(arr.reshape(-1)):
        flat[i] = cast_str_elem(e, base)
    return out


def sym_chars(ctx, name, n, exclude=''):
    """n symbolic characters in {TAB} + printable ASCII 32..126 minus `exclude`."""
    items = []
    for i in range(n):
        t = z3.Int('%s_%d' % (name, i))
        ctx.inputs['%s_%d' % (name, i)] = t
        ctx.add(z3.Or(t == 9, z3.And(t >= 32, t <= 126)))
        for ch in exclude:
            ctx.add(t != ord(ch))
        ctx.declare_domain(t, [k for k in [9] + list(range(32, 127)) if chr(k) not in exclude])
        items.append(t)
    return items
