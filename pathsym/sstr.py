"""symbolic strings (placeholder; filled in by the string layer)."""
NOT_HANDLED = object()


class SStr(object):
    is_bytes = False


def contains(container, item):
    return NOT_HANDLED


def container_method(obj, name, *a, **k):
    return NOT_HANDLED
