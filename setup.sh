#!/bin/sh
# Build the overlay virtualenv used by every check: /venv's packages (numpy, scipy, astropy, pytest,
# pydl's own dependencies) + z3-solver / crosshair-tool / jsonschema from the offline wheelhouse.
# Idempotent; offline only.
set -e
cd "$(dirname "$0")"
V=/verif/.venv
if [ ! -x "$V/bin/python" ] || ! "$V/bin/python" -c "import z3, numpy" 2>/dev/null; then
    rm -rf "$V"
    /venv/bin/python -m venv "$V"
    SP=$("$V/bin/python" -c "import sysconfig; print(sysconfig.get_paths()['purelib'])")
    echo "import site; site.addsitedir('/venv/lib/python3.12/site-packages')" > "$SP/_venv_overlay.pth"
    PIP_NO_INDEX=1 "$V/bin/python" -m pip install -q --no-index --find-links /opt/veriftools/wheels z3-solver jsonschema crosshair-tool >/dev/null 2>&1 || \
    PIP_NO_INDEX=1 "$V/bin/python" -m pip install -q --no-index --find-links /opt/veriftools/wheels z3-solver
fi
"$V/bin/python" -c "import z3, numpy, scipy; print('overlay ok: z3', z3.get_version_string(), 'numpy', numpy.__version__)"
